package main

// Library intercepts: functions whose bodies are assembly, reflection, unsafe or I/O.
// Everything here is part of the trusted base and is listed in DESIGN.md §4.

import (
	"fmt"
	"go/types"
	"sort"
	"strconv"
	"strings"

	"golang.org/x/tools/go/ssa"
)

// packages whose synthetic init is executed by the engine
var initAllow = map[string]bool{
	"github.com/openacid/low/bitmap": true, "github.com/openacid/low/bitstr": true, "github.com/openacid/low/bmtree": true,
	"github.com/openacid/low/sigbits": true, "github.com/openacid/low/pbcmpl": true, "github.com/openacid/low/vers": true,
	"github.com/openacid/low/tree": true, "github.com/openacid/low/bitword": true,
	"github.com/openacid/slim/trie": true, "github.com/openacid/slim/array": true, "github.com/openacid/slim/encode": true,
	"github.com/openacid/slim/index": true,
	"github.com/openacid/must":       true, "github.com/openacid/must/disabled": true,
	"github.com/blang/semver": true, "github.com/openacid/errors": true,
	"io": true, "bytes": true, "strings": true, "strconv": true, "sort": true, "unicode/utf8": true,
	"encoding/binary": true, "math/bits": true, "math": true,
}

func buildIntercepts() map[string]interceptFn {
	ic := map[string]interceptFn{}
	tbc := func(m *Machine, w uint8, v uint64) *Term { return m.tb.Const(w, v) }
	_ = tbc

	// ---- math/bits ----
	for _, w := range []uint8{8, 16, 32, 64} {
		w := w
		suffix := strconv.Itoa(int(w))
		ic["math/bits.OnesCount"+suffix] = func(m *Machine, f *Frame, a []value) (value, bool) {
			return m.tb.Popcnt(a[0].(*Term)), true
		}
		ic["math/bits.LeadingZeros"+suffix] = func(m *Machine, f *Frame, a []value) (value, bool) {
			return m.tb.Clz(a[0].(*Term)), true
		}
		ic["math/bits.TrailingZeros"+suffix] = func(m *Machine, f *Frame, a []value) (value, bool) {
			return m.tb.Ctz(a[0].(*Term)), true
		}
		ic["math/bits.Len"+suffix] = func(m *Machine, f *Frame, a []value) (value, bool) {
			return m.tb.Sub(m.tb.Const(64, uint64(w)), m.tb.Clz(a[0].(*Term))), true
		}
	}
	ic["math/bits.OnesCount"] = ic["math/bits.OnesCount64"]
	ic["math/bits.LeadingZeros"] = ic["math/bits.LeadingZeros64"]
	ic["math/bits.TrailingZeros"] = ic["math/bits.TrailingZeros64"]
	ic["math/bits.Len"] = ic["math/bits.Len64"]

	// ---- bytealg / bytes / strings primitives ----
	ic["internal/bytealg.Compare"] = func(m *Machine, f *Frame, a []value) (value, bool) {
		return m.bytesCmp3(m.sliceBytes(a[0].(Slice)), m.sliceBytes(a[1].(Slice))), true
	}
	ic["bytes.Compare"] = ic["internal/bytealg.Compare"]
	ic["bytes.Equal"] = func(m *Machine, f *Frame, a []value) (value, bool) {
		return m.strEq(mkStr(m.sliceBytes(a[0].(Slice))), mkStr(m.sliceBytes(a[1].(Slice)))), true
	}
	ic["internal/bytealg.Equal"] = ic["bytes.Equal"]
	ic["strings.Compare"] = func(m *Machine, f *Frame, a []value) (value, bool) {
		return m.bytesCmp3(a[0].(Str).Bytes(m.tb), a[1].(Str).Bytes(m.tb)), true
	}
	ic["internal/bytealg.CompareString"] = ic["strings.Compare"]
	indexByte := func(m *Machine, bs []*Term, c *Term) value {
		// first i with bs[i]==c, else -1, as one ite chain (no forks; users concretise when needed)
		r := m.tb.Const(64, ^uint64(0))
		for i := len(bs) - 1; i >= 0; i-- {
			r = m.tb.Ite(m.tb.Eq(bs[i], c), m.tb.Const(64, uint64(i)), r)
		}
		return r
	}
	ic["strings.ContainsRune"] = func(m *Machine, f *Frame, a []value) (value, bool) {
		s := a[0].(Str)
		r := a[1].(*Term)
		if !s.IsConc() {
			return nil, false
		}
		for i := 0; i < len(s.s); i++ {
			if s.s[i] >= 0x80 {
				return nil, false
			}
		}
		res := m.tb.False
		for i := 0; i < len(s.s); i++ {
			res = m.tb.Or(res, m.tb.Eq(r, m.tb.Const(32, uint64(s.s[i]))))
		}
		return res, true
	}
	ic["internal/bytealg.IndexByteString"] = func(m *Machine, f *Frame, a []value) (value, bool) {
		return indexByte(m, a[0].(Str).Bytes(m.tb), a[1].(*Term)), true
	}
	ic["strings.IndexByte"] = ic["internal/bytealg.IndexByteString"]
	ic["internal/bytealg.IndexByte"] = func(m *Machine, f *Frame, a []value) (value, bool) {
		return indexByte(m, m.sliceBytes(a[0].(Slice)), a[1].(*Term)), true
	}
	ic["bytes.IndexByte"] = ic["internal/bytealg.IndexByte"]
	ic["internal/bytealg.CountString"] = func(m *Machine, f *Frame, a []value) (value, bool) {
		bs := a[0].(Str).Bytes(m.tb)
		c := a[1].(*Term)
		r := m.tb.Const(64, 0)
		for _, b := range bs {
			r = m.tb.Add(r, m.tb.Ite(m.tb.Eq(b, c), m.tb.Const(64, 1), m.tb.Const(64, 0)))
		}
		return r, true
	}
	ic["internal/bytealg.Count"] = func(m *Machine, f *Frame, a []value) (value, bool) {
		bs := m.sliceBytes(a[0].(Slice))
		c := a[1].(*Term)
		r := m.tb.Const(64, 0)
		for _, b := range bs {
			r = m.tb.Add(r, m.tb.Ite(m.tb.Eq(b, c), m.tb.Const(64, 1), m.tb.Const(64, 0)))
		}
		return r, true
	}
	ic["internal/bytealg.IndexString"] = func(m *Machine, f *Frame, a []value) (value, bool) {
		s, sub := a[0].(Str), a[1].(Str)
		if s.IsConc() && sub.IsConc() {
			return m.tb.Const(64, uint64(int64(strings.Index(s.s, sub.s)))), true
		}
		for i := 0; i+sub.Len() <= s.Len(); i++ {
			if m.branch(m.strEq(s.Sub(i, i+sub.Len()), sub)) {
				return m.tb.Const(64, uint64(i)), true
			}
		}
		return m.tb.Const(64, ^uint64(0)), true
	}
	ic["strings.Index"] = ic["internal/bytealg.IndexString"]
	ic["internal/abi.NoEscape"] = func(m *Machine, f *Frame, a []value) (value, bool) { return a[0], true }
	ic["internal/bytealg.MakeNoZero"] = func(m *Machine, f *Frame, a []value) (value, bool) {
		n := m.concInt(a[0].(*Term), true, "MakeNoZero")
		o := m.newObject(n, "bytes")
		z := m.tb.Const(8, 0)
		for i := range o.cells {
			o.cells[i] = z
		}
		return Slice{obj: o, len: n, cap: n, esz: 1}, true
	}

	// ---- low/bitstr: unsafe string->[]byte cast ----
	ic["github.com/openacid/low/bitstr.StrCmpUpto"] = func(m *Machine, f *Frame, a []value) (value, bool) {
		s := a[0].(Str)
		bs := append([]*Term(nil), s.Bytes(m.tb)...)
		var sl Slice
		if len(bs) == 0 {
			sl = Slice{obj: m.newObject(0, "strview"), esz: 1}
		} else {
			sl = m.newByteSlice(bs, "strview")
		}
		fn := m.lookupFunc("github.com/openacid/low/bitstr", "CmpUpto")
		top := &m.frames[len(m.frames)-1]
		in := top.block.Instrs[top.ip]
		var res ssa.Value
		if v, ok := in.(ssa.Value); ok {
			res = v
		}
		m.pushFrame(fn, []value{sl, a[1]}, nil, res, fkNormal)
		return pushedFrame, true
	}

	// ---- errors ----
	ic["github.com/openacid/errors.callers"] = func(m *Machine, f *Frame, a []value) (value, bool) { return Ptr{}, true }
	ic["runtime.Callers"] = func(m *Machine, f *Frame, a []value) (value, bool) { return m.tb.Const(64, 0), true }

	// ---- fmt / strconv on concrete arguments ----
	ic["fmt.Sprintf"] = func(m *Machine, f *Frame, a []value) (value, bool) {
		format := a[0].(Str)
		args, ok := m.goArgs(a[1].(Slice))
		if !ok || !format.IsConc() {
			return Str{s: "<fmt:symbolic>"}, true
		}
		return Str{s: fmt.Sprintf(format.s, args...)}, true
	}
	ic["fmt.Sprint"] = func(m *Machine, f *Frame, a []value) (value, bool) {
		args, ok := m.goArgs(a[0].(Slice))
		if !ok {
			return Str{s: "<fmt:symbolic>"}, true
		}
		return Str{s: fmt.Sprint(args...)}, true
	}
	ic["fmt.Errorf"] = func(m *Machine, f *Frame, a []value) (value, bool) {
		format := a[0].(Str)
		args, ok := m.goArgs(a[1].(Slice))
		msg := "<fmt:symbolic>"
		if ok && format.IsConc() {
			msg = fmt.Sprintf(format.s, args...)
		}
		return m.newError(msg), true
	}
	ic["fmt.Println"] = func(m *Machine, f *Frame, a []value) (value, bool) {
		return Tuple{m.tb.Const(64, 0), Iface{}}, true
	}
	ic["fmt.Printf"] = ic["fmt.Println"]
	ic["strconv.Itoa"] = func(m *Machine, f *Frame, a []value) (value, bool) {
		t := a[0].(*Term)
		if !t.IsConst() {
			return nil, false
		}
		return Str{s: strconv.Itoa(int(int64(t.k)))}, true
	}
	ic["sort.Strings"] = func(m *Machine, f *Frame, a []value) (value, bool) {
		s := a[0].(Slice)
		ss := make([]string, s.len)
		for i := 0; i < s.len; i++ {
			st := s.obj.cells[s.off+i].(Str)
			if !st.IsConc() {
				return nil, false
			}
			ss[i] = st.s
		}
		sort.Strings(ss)
		for i := 0; i < s.len; i++ {
			m.write(s.obj, s.off+i, Str{s: ss[i]})
		}
		return nil, true
	}

	// ---- reflect (the kinds slim uses) ----
	ic["reflect.ValueOf"] = func(m *Machine, f *Frame, a []value) (value, bool) {
		i := a[0].(Iface)
		return reflVal{v: i.v, t: i.t}, true
	}
	ic["reflect.TypeOf"] = func(m *Machine, f *Frame, a []value) (value, bool) {
		i := a[0].(Iface)
		if i.t == nil {
			return Iface{}, true
		}
		return Iface{t: reflTypeT, v: reflType{i.t}}, true
	}
	ic["(reflect.Value).Kind"] = func(m *Machine, f *Frame, a []value) (value, bool) {
		rv := a[0].(reflVal)
		return m.tb.Const(64, uint64(kindOf(rv.t))), true
	}
	ic["(reflect.Value).Len"] = func(m *Machine, f *Frame, a []value) (value, bool) {
		rv := a[0].(reflVal)
		switch x := rv.v.(type) {
		case Slice:
			return m.tb.Const(64, uint64(x.len)), true
		case Str:
			return m.tb.Const(64, uint64(x.Len())), true
		case Agg:
			if at, ok := rv.t.Underlying().(*types.Array); ok {
				return m.tb.Const(64, uint64(at.Len())), true
			}
		}
		abortf("reflect.Value.Len on %T", rv.v)
		return nil, true
	}
	ic["(reflect.Value).IsValid"] = func(m *Machine, f *Frame, a []value) (value, bool) {
		rv, _ := a[0].(reflVal)
		return m.tb.Bool(rv.t != nil), true
	}
	ic["(reflect.Value).Elem"] = func(m *Machine, f *Frame, a []value) (value, bool) {
		rv := a[0].(reflVal)
		switch u := rv.t.Underlying().(type) {
		case *types.Pointer:
			p := rv.v.(Ptr)
			if p.obj == nil {
				return reflVal{}, true
			}
			return reflVal{v: m.loadT(p.obj, p.idx, u.Elem()), t: u.Elem()}, true
		case *types.Interface:
			i := rv.v.(Iface)
			if i.t == nil {
				return reflVal{}, true
			}
			return reflVal{v: i.v, t: i.t}, true
		}
		m.goPanicf("reflect: call of reflect.Value.Elem on %s Value", rv.t)
		return nil, true
	}
	ic["(reflect.Value).IsNil"] = func(m *Machine, f *Frame, a []value) (value, bool) {
		rv := a[0].(reflVal)
		return m.tb.Bool(isNilValue(rv.v)), true
	}
	ic["(reflect.Value).Index"] = func(m *Machine, f *Frame, a []value) (value, bool) {
		rv := a[0].(reflVal)
		i := m.concInt(a[1].(*Term), true, "reflect index")
		switch x := rv.v.(type) {
		case Slice:
			et := rv.t.Underlying().(*types.Slice).Elem()
			if i < 0 || i >= x.len {
				m.goPanicf("reflect: slice index out of range")
			}
			return reflVal{v: m.loadT(x.obj, x.off+i*x.esz, et), t: et}, true
		}
		abortf("reflect.Value.Index on %T", rv.v)
		return nil, true
	}
	ic["(reflect.Value).Interface"] = func(m *Machine, f *Frame, a []value) (value, bool) {
		rv := a[0].(reflVal)
		if _, isI := rv.t.Underlying().(*types.Interface); isI {
			return rv.v, true
		}
		return Iface{t: rv.t, v: rv.v}, true
	}
	ic["(reflect.Value).Type"] = func(m *Machine, f *Frame, a []value) (value, bool) {
		rv := a[0].(reflVal)
		return Iface{t: reflTypeT, v: reflType{rv.t}}, true
	}
	ic["reflect.Indirect"] = func(m *Machine, f *Frame, a []value) (value, bool) {
		rv := a[0].(reflVal)
		if pt, ok := rv.t.Underlying().(*types.Pointer); ok {
			p := rv.v.(Ptr)
			if p.obj == nil {
				return reflVal{}, true
			}
			return reflVal{v: m.loadT(p.obj, p.idx, pt.Elem()), t: pt.Elem()}, true
		}
		return rv, true
	}

	// ---- sort.Slice: real pdqsort with a native swapper ----
	ic["internal/reflectlite.Swapper"] = func(m *Machine, f *Frame, a []value) (value, bool) {
		i := a[0].(Iface)
		s := i.v.(Slice)
		return Func{native: &nativeFn{name: "swapper", f: func(m *Machine, args []value) value {
			x := m.concInt(args[0].(*Term), true, "swap")
			y := m.concInt(args[1].(*Term), true, "swap")
			for k := 0; k < s.esz; k++ {
				cx, cy := s.obj.cells[s.off+x*s.esz+k], s.obj.cells[s.off+y*s.esz+k]
				m.write(s.obj, s.off+x*s.esz+k, cy)
				m.write(s.obj, s.off+y*s.esz+k, cx)
			}
			return nil
		}}}, true
	}
	// ---- verified summary: bmtree.PathToIndex for full-height or empty paths ----
	// Closed form (sizes 17 and 257): empty path -> 0, full path with bits v -> 1+v.
	// The lemma harness k_path_summary proves it equal to the real function on every run
	// (with the summary switched off); any other shape of call falls through to the real code.
	ic["github.com/openacid/low/bmtree.PathToIndex"] = func(m *Machine, f *Frame, a []value) (value, bool) {
		if m.noSummaries {
			return nil, false
		}
		sz, path := a[0].(*Term), a[1].(*Term)
		if !sz.IsConst() || (sz.k != 17 && sz.k != 257) {
			return nil, false
		}
		h := uint64(4)
		if sz.k == 257 {
			h = 8
		}
		low := m.tb.Extract(path, 0, 32)
		if !low.IsConst() {
			return nil, false
		}
		hi := m.tb.Extract(path, 32, 32)
		switch {
		case low.k == 0:
			// an empty path has no bits set at all (NewPath); require it
			if !hi.IsConst() || hi.k != 0 {
				return nil, false
			}
			return m.tb.Const(32, 0), true
		case low.k == (uint64(1)<<h)-1:
			if hi.hi >= uint64(1)<<h {
				return nil, false
			}
			m.stubsHit["summary:PathToIndex(verified by k_path_summary)"]++
			return m.tb.Add(hi, m.tb.Const(32, 1)), true
		}
		return nil, false
	}
	// ---- protobuf registration (no-ops) ----
	for _, n := range []string{"RegisterType", "RegisterFile", "RegisterEnum", "RegisterMapType", "RegisterExtension"} {
		ic["github.com/golang/protobuf/proto."+n] = func(m *Machine, f *Frame, a []value) (value, bool) { return nil, true }
	}
	// ---- encoding/binary (model of std: layout from go/types) ----
	ic["encoding/binary.Size"] = func(m *Machine, f *Frame, a []value) (value, bool) {
		i := a[0].(Iface)
		n := m.binSize(i.t, i.v, true)
		return m.tb.Const(64, uint64(int64(n))), true
	}
	ic["internal/reflectlite.ValueOf"] = func(m *Machine, f *Frame, a []value) (value, bool) {
		i := a[0].(Iface)
		return reflVal{v: i.v, t: i.t}, true
	}
	ic["(internal/reflectlite.Value).Len"] = ic["(reflect.Value).Len"]
	return ic
}

var reflTypeT = types.NewNamed(types.NewTypeName(0, nil, "rtype", nil), types.NewStruct(nil, nil), nil)

func kindOf(t types.Type) int {
	if t == nil {
		return 0
	}
	switch u := t.Underlying().(type) {
	case *types.Basic:
		switch u.Kind() {
		case types.Bool:
			return 1
		case types.Int:
			return 2
		case types.Int8:
			return 3
		case types.Int16:
			return 4
		case types.Int32:
			return 5
		case types.Int64:
			return 6
		case types.Uint:
			return 7
		case types.Uint8:
			return 8
		case types.Uint16:
			return 9
		case types.Uint32:
			return 10
		case types.Uint64:
			return 11
		case types.Uintptr:
			return 12
		case types.Float32:
			return 13
		case types.Float64:
			return 14
		case types.String:
			return 24
		case types.UnsafePointer:
			return 26
		}
	case *types.Array:
		return 17
	case *types.Chan:
		return 18
	case *types.Signature:
		return 19
	case *types.Interface:
		return 20
	case *types.Map:
		return 21
	case *types.Pointer:
		return 22
	case *types.Slice:
		return 23
	case *types.Struct:
		return 25
	}
	return 0
}

func (m *Machine) lookupFunc(pkgPath, name string) *ssa.Function {
	for _, p := range m.prog.AllPackages() {
		if p.Pkg.Path() == pkgPath {
			if fn := p.Func(name); fn != nil {
				return fn
			}
		}
	}
	abortf("function %s.%s not found", pkgPath, name)
	return nil
}

// newError builds an error value (errors.errorString) with a concrete message.
func (m *Machine) newError(msg string) value {
	fn := m.lookupFunc("errors", "New")
	_ = fn
	// *errors.errorString{ s string }
	var est types.Type
	for _, p := range m.prog.AllPackages() {
		if p.Pkg.Path() == "errors" {
			est = p.Pkg.Scope().Lookup("errorString").Type()
		}
	}
	o := m.newObject(1, "errorString")
	o.cells[0] = Str{s: msg}
	return Iface{t: types.NewPointer(est), v: Ptr{obj: o}}
}

// goArgs converts a []interface{} of engine values to native values for fmt.
func (m *Machine) goArgs(s Slice) ([]interface{}, bool) {
	out := make([]interface{}, s.len)
	for i := 0; i < s.len; i++ {
		g, ok := m.toGo(s.obj.cells[s.off+i])
		if !ok {
			return nil, false
		}
		out[i] = g
	}
	return out, true
}

func (m *Machine) toGo(v value) (interface{}, bool) {
	switch x := v.(type) {
	case Iface:
		if x.t == nil {
			return nil, true
		}
		if t, isT := x.v.(*Term); isT {
			if !t.IsConst() {
				return nil, false
			}
			b, ok := x.t.Underlying().(*types.Basic)
			if !ok {
				return nil, false
			}
			switch b.Kind() {
			case types.Bool:
				return t.k != 0, true
			case types.Int:
				return int(int64(t.k)), true
			case types.Int8:
				return int8(t.k), true
			case types.Int16:
				return int16(t.k), true
			case types.Int32:
				return int32(t.k), true
			case types.Int64:
				return int64(t.k), true
			case types.Uint:
				return uint(t.k), true
			case types.Uint8:
				return uint8(t.k), true
			case types.Uint16:
				return uint16(t.k), true
			case types.Uint32:
				return uint32(t.k), true
			case types.Uint64:
				return t.k, true
			}
			return nil, false
		}
		if s, isS := x.v.(Str); isS {
			if !s.IsConc() {
				return nil, false
			}
			return s.s, true
		}
		if sl, isSl := x.v.(Slice); isSl {
			if st, ok := x.t.Underlying().(*types.Slice); ok {
				if ew, signed, ok2 := intInfo(st.Elem()); ok2 {
					if ew == 8 && !signed {
						bs := make([]byte, sl.len)
						for i := range bs {
							t := sl.obj.cells[sl.off+i].(*Term)
							if !t.IsConst() {
								return nil, false
							}
							bs[i] = byte(t.k)
						}
						return bs, true
					}
					vals := make([]int64, sl.len)
					for i := range vals {
						t := sl.obj.cells[sl.off+i].(*Term)
						if !t.IsConst() {
							return nil, false
						}
						if signed {
							vals[i] = sext64(t.k, ew)
						} else {
							vals[i] = int64(t.k)
						}
					}
					return vals, true
				}
				if isStringType(st.Elem()) {
					ss := make([]string, sl.len)
					for i := range ss {
						s := sl.obj.cells[sl.off+i].(Str)
						if !s.IsConc() {
							return nil, false
						}
						ss[i] = s.s
					}
					return ss, true
				}
			}
		}
		if fl, isF := x.v.(Float); isF {
			return float64(fl), true
		}
		return fmt.Sprintf("<%s>", x.t), true
	}
	return nil, false
}

// binSize mirrors encoding/binary.Size for fixed-size data (-1 otherwise).
func (m *Machine) binSize(t types.Type, v value, top bool) int {
	switch u := t.Underlying().(type) {
	case *types.Basic:
		if w, _, ok := intInfo(u); ok {
			if u.Kind() == types.Int || u.Kind() == types.Uint || u.Kind() == types.Uintptr {
				return -1
			}
			return int(w) / 8
		}
		switch u.Kind() {
		case types.Bool:
			return 1
		case types.Float32:
			return 4
		case types.Float64:
			return 8
		}
		return -1
	case *types.Pointer:
		if !top {
			return -1
		}
		return m.binSize(u.Elem(), nil, false)
	case *types.Array:
		e := m.binSize(u.Elem(), nil, false)
		if e < 0 {
			return -1
		}
		return e * int(u.Len())
	case *types.Struct:
		n := 0
		for i := 0; i < u.NumFields(); i++ {
			e := m.binSize(u.Field(i).Type(), nil, false)
			if e < 0 {
				return -1
			}
			n += e
		}
		return n
	case *types.Slice:
		if !top {
			return -1
		}
		e := m.binSize(u.Elem(), nil, false)
		if e < 0 {
			return -1
		}
		if s, ok := v.(Slice); ok {
			return e * s.len
		}
	}
	return -1
}
