package main

// Term layer: hash-consed bit-vector / boolean terms with constant folding,
// local simplification, unsigned interval tracking, a concrete evaluator and
// SMT-LIB2 printing.  Width 0 means Bool; widths 1..64 are bit-vectors.

import (
	"fmt"
	"math/bits"
	"strings"
)

type Op uint8

const (
	OConst Op = iota
	OVar
	ONot
	OAnd
	OOr
	OIte
	OEq
	OUlt
	OSlt
	OAdd
	OSub
	OMul
	OUdiv
	OUrem
	OSdiv
	OSrem
	OBAnd
	OBOr
	OBXor
	OBNot
	OShl
	OLshr
	OAshr
	OZext
	OSext
	OExtract // low bit k, width w
	OPopcnt  // width 64 only
	OClz     // width 64 only
)

var opNames = [...]string{"const", "var", "not", "and", "or", "ite", "=", "bvult", "bvslt", "bvadd", "bvsub", "bvmul",
	"bvudiv", "bvurem", "bvsdiv", "bvsrem", "bvand", "bvor", "bvxor", "bvnot", "bvshl", "bvlshr", "bvashr",
	"zext", "sext", "extract", "popcnt64", "clz64"}

type Term struct {
	op      Op
	w       uint8
	a, b, c *Term
	k       uint64
	id      int32
	lo, hi  uint64
	kz, ko  uint64 // known-zero / known-one bit masks
	pcmax   uint8  // upper bound on the number of set bits
	emitLvl int32
	evalGen uint32
	evalVal uint64
	name    string
}

func (t *Term) IsConst() bool { return t.op == OConst }
func (t *Term) IsBool() bool  { return t.w == 0 }

type tkey struct {
	op      Op
	w       uint8
	k       uint64
	a, b, c int32
}

// TB is a term builder (one per worker; not goroutine safe).
type TB struct {
	tab     map[tkey]*Term
	consts  map[[2]uint64]*Term
	nextID  int32
	vars    []*Term
	varByNm map[string]*Term
	True    *Term
	False   *Term
	evalGen uint32
}

func NewTB() *TB {
	tb := &TB{tab: map[tkey]*Term{}, consts: map[[2]uint64]*Term{}, varByNm: map[string]*Term{}}
	tb.True = tb.Const(0, 1)
	tb.False = tb.Const(0, 0)
	return tb
}

func maskW(w uint8) uint64 {
	if w == 0 {
		return 1
	}
	if w >= 64 {
		return ^uint64(0)
	}
	return (uint64(1) << w) - 1
}

func sext64(v uint64, w uint8) int64 {
	if w >= 64 {
		return int64(v)
	}
	sh := 64 - uint(w)
	return int64(v<<sh) >> sh
}

func (tb *TB) Const(w uint8, v uint64) *Term {
	v &= maskW(w)
	key := [2]uint64{uint64(w), v}
	if t, ok := tb.consts[key]; ok {
		return t
	}
	tb.nextID++
	t := &Term{op: OConst, w: w, k: v, id: tb.nextID, lo: v, hi: v, kz: ^v, ko: v, pcmax: uint8(bits.OnesCount64(v)), emitLvl: -1}
	tb.consts[key] = t
	return t
}

func (tb *TB) Bool(b bool) *Term {
	if b {
		return tb.True
	}
	return tb.False
}

func (tb *TB) Var(name string, w uint8) *Term {
	name = fmt.Sprintf("%s@%d", name, w)
	if t, ok := tb.varByNm[name]; ok {
		return t
	}
	tb.nextID++
	t := &Term{op: OVar, w: w, id: tb.nextID, name: name, lo: 0, hi: maskW(w), kz: ^maskW(w), pcmax: w, emitLvl: -1}
	tb.vars = append(tb.vars, t)
	tb.varByNm[name] = t
	return t
}

func idOf(t *Term) int32 {
	if t == nil {
		return 0
	}
	return t.id
}

func (tb *TB) mk(op Op, w uint8, k uint64, a, b, c *Term) *Term {
	key := tkey{op, w, k, idOf(a), idOf(b), idOf(c)}
	if t, ok := tb.tab[key]; ok {
		return t
	}
	tb.nextID++
	t := &Term{op: op, w: w, k: k, a: a, b: b, c: c, id: tb.nextID, lo: 0, hi: maskW(w), pcmax: w, emitLvl: -1}
	tb.popBound(t)
	tb.interval(t)
	if w > 0 {
		tb.knownBits(t)
		m := maskW(w)
		if (t.kz|t.ko)&m == m {
			ct := tb.Const(w, t.ko)
			tb.tab[key] = ct
			return ct
		}
		if t.lo == t.hi {
			ct := tb.Const(w, t.lo)
			tb.tab[key] = ct
			return ct
		}
		if pc := uint8(bits.OnesCount64(^t.kz & m)); pc < t.pcmax {
			t.pcmax = pc
		}
	}
	tb.tab[key] = t
	return t
}

func nextPow2Mask(v uint64) uint64 {
	if v == 0 {
		return 0
	}
	return ^uint64(0) >> uint(bits.LeadingZeros64(v))
}

func (tb *TB) interval(t *Term) {
	m := maskW(t.w)
	a, b, c := t.a, t.b, t.c
	switch t.op {
	case OZext:
		t.lo, t.hi = a.lo, a.hi
	case OSext:
		if a.hi < uint64(1)<<(a.w-1) {
			t.lo, t.hi = a.lo, a.hi
		}
	case OExtract:
		if t.k == 0 && a.hi <= m {
			t.lo, t.hi = a.lo, a.hi
		}
	case OBAnd:
		t.lo = 0
		t.hi = a.hi
		if b.hi < t.hi {
			t.hi = b.hi
		}
	case OBOr, OBXor:
		t.lo = 0
		if t.op == OBOr {
			t.lo = a.lo
			if b.lo > t.lo {
				t.lo = b.lo
			}
		}
		t.hi = nextPow2Mask(a.hi | b.hi)
	case OAdd:
		hi, carry := bits.Add64(a.hi, b.hi, 0)
		if carry == 0 && hi <= m {
			t.lo, t.hi = a.lo+b.lo, hi
		} else if b.IsConst() && b.k > m/2 {
			// x + (-c) with x >= c
			c := (m - b.k) + 1
			if a.lo >= c {
				t.lo, t.hi = a.lo-c, a.hi-c
			}
		}
	case OSub:
		if a.lo >= b.hi {
			t.lo, t.hi = a.lo-b.hi, a.hi-b.lo
		}
	case OMul:
		h, l := bits.Mul64(a.hi, b.hi)
		if h == 0 && l <= m {
			t.lo, t.hi = a.lo*b.lo, l
		}
	case OUdiv:
		if b.lo > 0 {
			t.lo, t.hi = a.lo/b.hi, a.hi/b.lo
		}
	case OUrem:
		if b.lo > 0 {
			t.lo, t.hi = 0, b.hi-1
			if a.hi < t.hi {
				t.hi = a.hi
			}
		}
	case OLshr:
		if b.IsConst() {
			if b.k >= uint64(t.w) {
				t.lo, t.hi = 0, 0
			} else {
				t.lo, t.hi = a.lo>>b.k, a.hi>>b.k
			}
		} else {
			t.lo, t.hi = 0, a.hi
		}
	case OShl:
		if b.IsConst() && b.k < uint64(t.w) {
			if a.hi <= m>>b.k {
				t.lo, t.hi = a.lo<<b.k, a.hi<<b.k
			}
		}
	case OIte:
		if t.w > 0 {
			t.lo, t.hi = b.lo, b.hi
			if c.lo < t.lo {
				t.lo = c.lo
			}
			if c.hi > t.hi {
				t.hi = c.hi
			}
		}
	case OPopcnt, OClz:
		t.lo, t.hi = 0, 64
		if t.op == OPopcnt {
			// popcount of a value <= hi is at most bitlen(hi)
			t.hi = uint64(bits.Len64(a.hi))
			if uint64(a.pcmax) < t.hi {
				t.hi = uint64(a.pcmax)
			}
			if a.ko != 0 {
				t.lo = uint64(bits.OnesCount64(a.ko))
			}
		} else {
			t.lo = uint64(bits.LeadingZeros64(a.hi))
			t.hi = uint64(bits.LeadingZeros64(a.lo))
		}
	}
	if t.w == 0 {
		t.lo, t.hi = 0, 1
	}
}

// popBound computes an upper bound on the number of set bits.
func (tb *TB) popBound(t *Term) {
	a, b, c := t.a, t.b, t.c
	min8 := func(x, y uint8) uint8 {
		if x < y {
			return x
		}
		return y
	}
	switch t.op {
	case OBAnd:
		t.pcmax = min8(a.pcmax, b.pcmax)
	case OBOr, OBXor:
		if int(a.pcmax)+int(b.pcmax) < int(t.w) {
			t.pcmax = a.pcmax + b.pcmax
		}
	case OIte:
		t.pcmax = b.pcmax
		if c.pcmax > t.pcmax {
			t.pcmax = c.pcmax
		}
	case OZext, OExtract:
		t.pcmax = min8(a.pcmax, t.w)
	case OShl, OLshr:
		t.pcmax = a.pcmax
	}
}

// knownBits computes known-zero/known-one masks (as in LLVM's KnownBits) and tightens the interval.
func (tb *TB) knownBits(t *Term) {
	m := maskW(t.w)
	a, b, c := t.a, t.b, t.c
	var kz, ko uint64
	switch t.op {
	case OBAnd:
		kz, ko = a.kz|b.kz, a.ko&b.ko
	case OBOr:
		kz, ko = a.kz&b.kz, a.ko|b.ko
	case OBXor:
		known := (a.kz | a.ko) & (b.kz | b.ko)
		v := (a.ko ^ b.ko) & known
		ko, kz = v, ^v&known
	case OBNot:
		kz, ko = a.ko, a.kz
	case OShl:
		if b.IsConst() && b.k < uint64(t.w) {
			kz, ko = (a.kz<<b.k)|((uint64(1)<<b.k)-1), a.ko<<b.k
		}
	case OLshr:
		if b.IsConst() && b.k < uint64(t.w) {
			am := maskW(a.w)
			kz, ko = ((a.kz&am)>>b.k)|^(am>>b.k), (a.ko&am)>>b.k
		}
	case OZext:
		am := maskW(a.w)
		kz, ko = (a.kz&am)|^am, a.ko&am
	case OSext:
		am := maskW(a.w)
		sign := uint64(1) << (a.w - 1)
		kz, ko = a.kz&am, a.ko&am
		if a.kz&sign != 0 {
			kz |= ^am
		} else if a.ko&sign != 0 {
			ko |= ^am
		}
	case OExtract:
		kz, ko = a.kz>>t.k, a.ko>>t.k
	case OIte:
		kz, ko = b.kz&c.kz, b.ko&c.ko
	case OAdd:
		// no two possibly-one bits overlap: the sum is the bitwise or
		if (^a.kz&m)&(^b.kz&m) == 0 {
			kz, ko = a.kz&b.kz, a.ko|b.ko
		} else {
			// low bits known in both operands: the low part of the sum is known
			n := uint(bits.TrailingZeros64(^((a.kz | a.ko) & (b.kz | b.ko))))
			if n > 0 {
				lm := (uint64(1) << n) - 1
				if n >= 64 {
					lm = ^uint64(0)
				}
				sum := (a.ko + b.ko) & lm
				ko, kz = sum, ^sum&lm
			}
		}
	case OMul:
		if b.IsConst() && b.k != 0 {
			tz := uint(bits.TrailingZeros64(b.k))
			kz = (uint64(1) << tz) - 1
			tza := uint(bits.TrailingZeros64(^a.kz))
			if tza+tz < 64 {
				kz = (uint64(1) << (tza + tz)) - 1
			}
		}
	}
	// the interval bounds the high bits
	kz |= ^nextPow2Mask(t.hi)
	kz &= m
	ko &= m
	kz &^= ko & 0 // (kept separate; a contradiction cannot arise from sound rules)
	t.kz, t.ko = kz|^m, ko
	// tighten the interval from the known bits
	if maxv := ^t.kz & m; maxv < t.hi {
		t.hi = maxv
	}
	if t.ko > t.lo {
		t.lo = t.ko
	}
	if t.lo > t.hi {
		t.lo = t.hi
	}
}

// ---------- boolean constructors ----------

func (tb *TB) Not(a *Term) *Term {
	if a.IsConst() {
		return tb.Bool(a.k == 0)
	}
	if a.op == ONot {
		return a.a
	}
	return tb.mk(ONot, 0, 0, a, nil, nil)
}

func (tb *TB) And(a, b *Term) *Term {
	if a.IsConst() {
		if a.k == 0 {
			return tb.False
		}
		return b
	}
	if b.IsConst() {
		if b.k == 0 {
			return tb.False
		}
		return a
	}
	if a == b {
		return a
	}
	if (a.op == ONot && a.a == b) || (b.op == ONot && b.a == a) {
		return tb.False
	}
	if a.id > b.id {
		a, b = b, a
	}
	return tb.mk(OAnd, 0, 0, a, b, nil)
}

func (tb *TB) Or(a, b *Term) *Term {
	if a.IsConst() {
		if a.k != 0 {
			return tb.True
		}
		return b
	}
	if b.IsConst() {
		if b.k != 0 {
			return tb.True
		}
		return a
	}
	if a == b {
		return a
	}
	if (a.op == ONot && a.a == b) || (b.op == ONot && b.a == a) {
		return tb.True
	}
	if a.id > b.id {
		a, b = b, a
	}
	return tb.mk(OOr, 0, 0, a, b, nil)
}

func (tb *TB) Ite(c, a, b *Term) *Term {
	if a.w != b.w {
		panic(fmt.Sprintf("ite width mismatch %d %d", a.w, b.w))
	}
	if c.IsConst() {
		if c.k != 0 {
			return a
		}
		return b
	}
	if a == b {
		return a
	}
	if c.op == ONot {
		return tb.Ite(c.a, b, a)
	}
	if a.w == 0 {
		if a.IsConst() && b.IsConst() {
			if a.k != 0 {
				return c
			}
			return tb.Not(c)
		}
		if a.IsConst() {
			if a.k != 0 {
				return tb.Or(c, b)
			}
			return tb.And(tb.Not(c), b)
		}
		if b.IsConst() {
			if b.k != 0 {
				return tb.Or(tb.Not(c), a)
			}
			return tb.And(c, a)
		}
	}
	// ite(c, ite(c, x, y), z) = ite(c, x, z)
	if a.op == OIte && a.a == c {
		a = a.b
	}
	if b.op == OIte && b.a == c {
		b = b.c
	}
	return tb.mk(OIte, a.w, 0, c, a, b)
}

func (tb *TB) Eq(a, b *Term) *Term {
	if a.w != b.w {
		panic(fmt.Sprintf("eq width mismatch %d %d", a.w, b.w))
	}
	if a == b {
		return tb.True
	}
	if a.IsConst() && b.IsConst() {
		return tb.Bool(a.k == b.k)
	}
	if a.w == 0 {
		// boolean equality
		if a.IsConst() {
			a, b = b, a
		}
		if b.IsConst() {
			if b.k != 0 {
				return a
			}
			return tb.Not(a)
		}
		return tb.Not(tb.mk(OBXor, 0, 0, minT(a, b), maxT(a, b), nil))
	}
	if a.hi < b.lo || b.hi < a.lo {
		return tb.False
	}
	if a.IsConst() {
		a, b = b, a
	}
	if b.IsConst() {
		// eq(ite(c,k1,k2), k)
		if a.op == OIte && a.b.IsConst() && a.c.IsConst() {
			e1 := a.b.k == b.k
			e2 := a.c.k == b.k
			switch {
			case e1 && e2:
				return tb.True
			case e1:
				return a.a
			case e2:
				return tb.Not(a.a)
			default:
				return tb.False
			}
		}
		if a.op == OIte && (a.b.IsConst() || a.c.IsConst()) {
			return tb.Ite(a.a, tb.Eq(a.b, b), tb.Eq(a.c, b))
		}
		// eq(zext(x), k)
		if a.op == OZext {
			if b.k > maskW(a.a.w) {
				return tb.False
			}
			return tb.Eq(a.a, tb.Const(a.a.w, b.k))
		}
	}
	if a.id > b.id {
		a, b = b, a
	}
	return tb.mk(OEq, 0, 0, a, b, nil)
}

func minT(a, b *Term) *Term {
	if a.id < b.id {
		return a
	}
	return b
}
func maxT(a, b *Term) *Term {
	if a.id < b.id {
		return b
	}
	return a
}

func (tb *TB) Ult(a, b *Term) *Term {
	if a.w != b.w {
		panic("ult width mismatch")
	}
	if a == b {
		return tb.False
	}
	if a.hi < b.lo {
		return tb.True
	}
	if a.lo >= b.hi {
		return tb.False
	}
	if a.op == OZext && b.op == OZext && a.a.w == b.a.w {
		return tb.Ult(a.a, b.a)
	}
	if a.op == OZext && b.IsConst() {
		if b.k > maskW(a.a.w) {
			return tb.True
		}
		return tb.Ult(a.a, tb.Const(a.a.w, b.k))
	}
	if b.op == OZext && a.IsConst() {
		if a.k >= maskW(b.a.w) {
			return tb.False
		}
		return tb.Ult(tb.Const(b.a.w, a.k), b.a)
	}
	return tb.mk(OUlt, 0, 0, a, b, nil)
}

func (tb *TB) Ule(a, b *Term) *Term { return tb.Not(tb.Ult(b, a)) }

func (tb *TB) Slt(a, b *Term) *Term {
	if a.w != b.w {
		panic("slt width mismatch")
	}
	if a == b {
		return tb.False
	}
	if a.IsConst() && b.IsConst() {
		return tb.Bool(sext64(a.k, a.w) < sext64(b.k, b.w))
	}
	half := uint64(1) << (a.w - 1)
	if a.hi < half && b.hi < half {
		return tb.Ult(a, b)
	}
	if a.lo >= half && b.lo >= half {
		return tb.Ult(a, b)
	}
	if a.lo >= half && b.hi < half {
		return tb.True
	}
	if a.hi < half && b.lo >= half {
		return tb.False
	}
	return tb.mk(OSlt, 0, 0, a, b, nil)
}

func (tb *TB) Sle(a, b *Term) *Term { return tb.Not(tb.Slt(b, a)) }

// ---------- bit-vector constructors ----------

func (tb *TB) bin(op Op, a, b *Term) *Term {
	if a.w != b.w {
		panic(fmt.Sprintf("%s width mismatch %d %d", opNames[op], a.w, b.w))
	}
	w := a.w
	m := maskW(w)
	if op == OAshr && w > 0 && a.hi < uint64(1)<<(w-1) {
		op = OLshr // non-negative: arithmetic and logical shifts agree
	}
	if a.IsConst() && b.IsConst() {
		x, y := a.k, b.k
		var r uint64
		switch op {
		case OAdd:
			r = x + y
		case OSub:
			r = x - y
		case OMul:
			r = x * y
		case OUdiv:
			if y == 0 {
				r = m
			} else {
				r = x / y
			}
		case OUrem:
			if y == 0 {
				r = x
			} else {
				r = x % y
			}
		case OSdiv:
			sx, sy := sext64(x, w), sext64(y, w)
			if sy == 0 {
				if sx < 0 {
					r = 1
				} else {
					r = m
				}
			} else if sy == -1 {
				r = uint64(-sx)
			} else {
				r = uint64(sx / sy)
			}
		case OSrem:
			sx, sy := sext64(x, w), sext64(y, w)
			if sy == 0 {
				r = x
			} else if sy == -1 {
				r = 0
			} else {
				r = uint64(sx % sy)
			}
		case OBAnd:
			r = x & y
		case OBOr:
			r = x | y
		case OBXor:
			r = x ^ y
		case OShl:
			if y >= uint64(w) {
				r = 0
			} else {
				r = x << y
			}
		case OLshr:
			if y >= uint64(w) {
				r = 0
			} else {
				r = x >> y
			}
		case OAshr:
			sx := sext64(x, w)
			if y >= uint64(w) {
				y = uint64(w) - 1
			}
			r = uint64(sx >> y)
		}
		return tb.Const(w, r)
	}
	// commutative: const on the right
	switch op {
	case OAdd, OMul, OBAnd, OBOr, OBXor:
		if a.IsConst() {
			a, b = b, a
		}
	}
	if b.IsConst() {
		y := b.k
		switch op {
		case OAdd, OSub, OBOr, OBXor, OShl, OLshr, OAshr:
			if y == 0 {
				return a
			}
		}
		switch op {
		case OMul:
			if y == 0 {
				return b
			}
			if y == 1 {
				return a
			}
		case OUdiv, OSdiv:
			if y == 1 {
				return a
			}
		case OBAnd:
			if y == 0 {
				return b
			}
			if y == m {
				return a
			}
			// and with mask covering the whole range of a
			if a.hi <= y && y&(y+1) == 0 {
				return a
			}
			// every possibly-one bit of a is kept by the mask
			if (^a.kz&m)&^y == 0 {
				return a
			}
		case OBOr:
			if y == m {
				return b
			}
		case OShl, OLshr:
			if y >= uint64(w) {
				return tb.Const(w, 0)
			}
		}
		// (x + c1) + c2
		if op == OAdd && a.op == OAdd && a.b.IsConst() {
			return tb.bin(OAdd, a.a, tb.Const(w, a.b.k+y))
		}
		if op == OSub {
			return tb.bin(OAdd, a, tb.Const(w, -y))
		}
		if op == OBAnd && a.op == OBAnd && a.b.IsConst() {
			return tb.bin(OBAnd, a.a, tb.Const(w, a.b.k&y))
		}
		// push cheap ops with a constant through an ite with a constant arm
		if a.op == OIte && (a.b.IsConst() || a.c.IsConst()) {
			switch op {
			case OAdd, OBAnd, OBOr, OBXor, OShl, OLshr, OMul:
				return tb.Ite(a.a, tb.bin(op, a.b, b), tb.bin(op, a.c, b))
			}
		}
	}
	if a.IsConst() {
		switch op {
		case OShl, OLshr, OAshr, OUdiv, OUrem, OSdiv, OSrem, OBAnd, OMul:
			if a.k == 0 {
				return a
			}
		}
	}
	if a == b {
		switch op {
		case OSub, OBXor:
			return tb.Const(w, 0)
		case OBAnd, OBOr:
			return a
		}
	}
	switch op {
	case OAdd, OMul, OBAnd, OBOr, OBXor:
		if a.id > b.id {
			a, b = b, a
		}
	}
	return tb.mk(op, w, 0, a, b, nil)
}

func (tb *TB) Add(a, b *Term) *Term  { return tb.bin(OAdd, a, b) }
func (tb *TB) Sub(a, b *Term) *Term  { return tb.bin(OSub, a, b) }
func (tb *TB) Mul(a, b *Term) *Term  { return tb.bin(OMul, a, b) }
func (tb *TB) BAnd(a, b *Term) *Term { return tb.bin(OBAnd, a, b) }
func (tb *TB) BOr(a, b *Term) *Term  { return tb.bin(OBOr, a, b) }
func (tb *TB) BXor(a, b *Term) *Term { return tb.bin(OBXor, a, b) }
func (tb *TB) Shl(a, b *Term) *Term  { return tb.bin(OShl, a, b) }
func (tb *TB) Lshr(a, b *Term) *Term { return tb.bin(OLshr, a, b) }
func (tb *TB) Ashr(a, b *Term) *Term { return tb.bin(OAshr, a, b) }

func (tb *TB) BNot(a *Term) *Term {
	if a.IsConst() {
		return tb.Const(a.w, ^a.k)
	}
	if a.op == OBNot {
		return a.a
	}
	return tb.mk(OBNot, a.w, 0, a, nil, nil)
}

func (tb *TB) Neg(a *Term) *Term { return tb.Sub(tb.Const(a.w, 0), a) }

func (tb *TB) Zext(a *Term, w uint8) *Term {
	if a.w == w {
		return a
	}
	if a.w > w {
		panic("zext to narrower")
	}
	if a.IsConst() {
		return tb.Const(w, a.k)
	}
	if a.op == OZext {
		return tb.Zext(a.a, w)
	}
	if a.op == OIte && a.b.IsConst() && a.c.IsConst() {
		return tb.Ite(a.a, tb.Const(w, a.b.k), tb.Const(w, a.c.k))
	}
	return tb.mk(OZext, w, 0, a, nil, nil)
}

func (tb *TB) Sext(a *Term, w uint8) *Term {
	if a.w == w {
		return a
	}
	if a.w > w {
		panic("sext to narrower")
	}
	if a.IsConst() {
		return tb.Const(w, uint64(sext64(a.k, a.w)))
	}
	if a.hi < uint64(1)<<(a.w-1) {
		return tb.Zext(a, w)
	}
	if a.op == OIte && a.b.IsConst() && a.c.IsConst() {
		return tb.Ite(a.a, tb.Sext(a.b, w), tb.Sext(a.c, w))
	}
	return tb.mk(OSext, w, 0, a, nil, nil)
}

// Extract returns bits [lo, lo+w) of a.
func (tb *TB) Extract(a *Term, lo uint8, w uint8) *Term {
	if lo == 0 && w == a.w {
		return a
	}
	if uint(lo)+uint(w) > uint(a.w) {
		panic("extract out of range")
	}
	if a.IsConst() {
		return tb.Const(w, a.k>>lo)
	}
	switch a.op {
	case OZext:
		if lo == 0 && w >= a.a.w {
			return tb.Zext(a.a, w)
		}
		if uint(lo)+uint(w) <= uint(a.a.w) {
			return tb.Extract(a.a, lo, w)
		}
		if lo >= a.a.w {
			return tb.Const(w, 0)
		}
	case OSext:
		if uint(lo)+uint(w) <= uint(a.a.w) {
			return tb.Extract(a.a, lo, w)
		}
		if lo == 0 && w >= a.a.w {
			return tb.Sext(a.a, w)
		}
	case OExtract:
		return tb.Extract(a.a, lo+uint8(a.k), w)
	case OIte:
		if a.b.IsConst() || a.c.IsConst() {
			return tb.Ite(a.a, tb.Extract(a.b, lo, w), tb.Extract(a.c, lo, w))
		}
	case OBAnd, OBOr, OBXor:
		if lo == 0 && (a.a.IsConst() || a.b.IsConst()) {
			return tb.bin(a.op, tb.Extract(a.a, 0, w), tb.Extract(a.b, 0, w))
		}
	case OAdd, OSub:
		if lo == 0 && (a.a.op == OZext || a.b.op == OZext || a.a.IsConst() || a.b.IsConst()) && w < a.w {
			return tb.bin(a.op, tb.Extract(a.a, 0, w), tb.Extract(a.b, 0, w))
		}
	case OLshr:
		if a.b.IsConst() && a.b.k+uint64(lo)+uint64(w) <= uint64(a.w) {
			return tb.Extract(a.a, lo+uint8(a.b.k), w)
		}
	case OShl:
		if a.b.IsConst() && lo == 0 && a.b.k >= uint64(w) {
			return tb.Const(w, 0)
		}
	}
	return tb.mk(OExtract, w, uint64(lo), a, nil, nil)
}

// Resize converts to width w treating a as signed or unsigned (Go conversion).
func (tb *TB) Resize(a *Term, w uint8, signed bool) *Term {
	if a.w == w {
		return a
	}
	if a.w > w {
		return tb.Extract(a, 0, w)
	}
	if signed {
		return tb.Sext(a, w)
	}
	return tb.Zext(a, w)
}

func (tb *TB) Popcnt(a *Term) *Term {
	w := a.w
	x := tb.Zext(a, 64)
	var r *Term
	if x.IsConst() {
		r = tb.Const(64, uint64(bits.OnesCount64(x.k)))
	} else {
		r = tb.mk(OPopcnt, 64, 0, x, nil, nil)
	}
	_ = w
	return r // 64-bit result; callers resize
}

// Clz returns the number of leading zeros of the w-bit value as a 64-bit term.
func (tb *TB) Clz(a *Term) *Term {
	w := a.w
	x := tb.Zext(a, 64)
	var r *Term
	if x.IsConst() {
		r = tb.Const(64, uint64(bits.LeadingZeros64(x.k)))
	} else {
		r = tb.mk(OClz, 64, 0, x, nil, nil)
	}
	return tb.Sub(r, tb.Const(64, uint64(64-w)))
}

// Ctz returns the number of trailing zeros of the w-bit value (w when zero) as a 64-bit term.
func (tb *TB) Ctz(a *Term) *Term {
	w := a.w
	x := tb.Zext(a, 64)
	if w < 64 {
		x = tb.BOr(x, tb.Const(64, uint64(1)<<w))
	}
	// ctz(x) = popcnt((x & -x) - 1)
	low := tb.BAnd(x, tb.Neg(x))
	return tb.Popcnt(tb.Sub(low, tb.Const(64, 1)))
}

// ---------- evaluation ----------

type Model map[int32]uint64 // var term id -> value; missing = 0

func (tb *TB) Eval(t *Term, m Model) uint64 {
	tb.evalGen++
	return tb.eval(t, m)
}

// EvalMany evaluates several terms under one memo generation.
func (tb *TB) EvalMany(ts []*Term, m Model) []uint64 {
	tb.evalGen++
	r := make([]uint64, len(ts))
	for i, t := range ts {
		r[i] = tb.eval(t, m)
	}
	return r
}

func (tb *TB) eval(t *Term, m Model) uint64 {
	if t.op == OConst {
		return t.k
	}
	if t.evalGen == tb.evalGen {
		return t.evalVal
	}
	var r uint64
	w := t.w
	switch t.op {
	case OVar:
		r = m[t.id]
	case ONot:
		r = tb.eval(t.a, m) ^ 1
	case OAnd:
		r = tb.eval(t.a, m)
		if r != 0 {
			r = tb.eval(t.b, m)
		}
	case OOr:
		r = tb.eval(t.a, m)
		if r == 0 {
			r = tb.eval(t.b, m)
		}
	case OIte:
		if tb.eval(t.a, m) != 0 {
			r = tb.eval(t.b, m)
		} else {
			r = tb.eval(t.c, m)
		}
	case OEq:
		r = b2u(tb.eval(t.a, m) == tb.eval(t.b, m))
	case OUlt:
		r = b2u(tb.eval(t.a, m) < tb.eval(t.b, m))
	case OSlt:
		r = b2u(sext64(tb.eval(t.a, m), t.a.w) < sext64(tb.eval(t.b, m), t.b.w))
	case OBNot:
		r = ^tb.eval(t.a, m)
	case OZext:
		r = tb.eval(t.a, m)
	case OSext:
		r = uint64(sext64(tb.eval(t.a, m), t.a.w))
	case OExtract:
		r = tb.eval(t.a, m) >> t.k
	case OPopcnt:
		r = uint64(bits.OnesCount64(tb.eval(t.a, m)))
	case OClz:
		r = uint64(bits.LeadingZeros64(tb.eval(t.a, m)))
	default:
		x := tb.eval(t.a, m)
		y := tb.eval(t.b, m)
		c := tb.bin(t.op, tb.Const(t.a.w, x), tb.Const(t.b.w, y))
		r = c.k
	}
	r &= maskW(w)
	t.evalGen = tb.evalGen
	t.evalVal = r
	return r
}

func b2u(b bool) uint64 {
	if b {
		return 1
	}
	return 0
}

// ---------- SMT printing ----------

func sortOf(w uint8) string {
	if w == 0 {
		return "Bool"
	}
	return fmt.Sprintf("(_ BitVec %d)", w)
}

func (t *Term) ref() string {
	switch t.op {
	case OConst:
		if t.w == 0 {
			if t.k != 0 {
				return "true"
			}
			return "false"
		}
		return fmt.Sprintf("(_ bv%d %d)", t.k, t.w)
	case OVar:
		return "|" + t.name + "|"
	}
	return fmt.Sprintf("t%d", t.id)
}

// body returns the SMT expression defining t in terms of refs to its children.
func (t *Term) body() string {
	switch t.op {
	case OZext:
		return fmt.Sprintf("((_ zero_extend %d) %s)", t.w-t.a.w, t.a.ref())
	case OSext:
		return fmt.Sprintf("((_ sign_extend %d) %s)", t.w-t.a.w, t.a.ref())
	case OExtract:
		return fmt.Sprintf("((_ extract %d %d) %s)", uint64(t.w)+t.k-1, t.k, t.a.ref())
	case ONot, OBNot, OPopcnt, OClz:
		return fmt.Sprintf("(%s %s)", opNames[t.op], t.a.ref())
	case OIte:
		return fmt.Sprintf("(ite %s %s %s)", t.a.ref(), t.b.ref(), t.c.ref())
	case OBXor:
		if t.w == 0 {
			return fmt.Sprintf("(xor %s %s)", t.a.ref(), t.b.ref())
		}
	}
	return fmt.Sprintf("(%s %s %s)", opNames[t.op], t.a.ref(), t.b.ref())
}

const smtPrelude = `(define-fun popcnt64 ((x (_ BitVec 64))) (_ BitVec 64)
 (let ((x1 (bvsub x (bvand (bvlshr x (_ bv1 64)) #x5555555555555555))))
 (let ((x2 (bvadd (bvand x1 #x3333333333333333) (bvand (bvlshr x1 (_ bv2 64)) #x3333333333333333))))
 (let ((x3 (bvand (bvadd x2 (bvlshr x2 (_ bv4 64))) #x0f0f0f0f0f0f0f0f)))
 (let ((x4 (bvadd x3 (bvlshr x3 (_ bv8 64)))))
 (let ((x5 (bvadd x4 (bvlshr x4 (_ bv16 64)))))
 (let ((x6 (bvadd x5 (bvlshr x5 (_ bv32 64)))))
  (bvand x6 #x000000000000007f))))))))
(define-fun clz64 ((x (_ BitVec 64))) (_ BitVec 64)
 (let ((c32 (= ((_ extract 63 32) x) #x00000000)))
 (let ((y32 (ite c32 (bvshl x (_ bv32 64)) x)) (n32 (ite c32 (_ bv32 64) (_ bv0 64))))
 (let ((c16 (= ((_ extract 63 48) y32) #x0000)))
 (let ((y16 (ite c16 (bvshl y32 (_ bv16 64)) y32)) (n16 (ite c16 (bvadd n32 (_ bv16 64)) n32)))
 (let ((c8 (= ((_ extract 63 56) y16) #x00)))
 (let ((y8 (ite c8 (bvshl y16 (_ bv8 64)) y16)) (n8 (ite c8 (bvadd n16 (_ bv8 64)) n16)))
 (let ((c4 (= ((_ extract 63 60) y8) #x0)))
 (let ((y4 (ite c4 (bvshl y8 (_ bv4 64)) y8)) (n4 (ite c4 (bvadd n8 (_ bv4 64)) n8)))
 (let ((c2 (= ((_ extract 63 62) y4) #b00)))
 (let ((y2 (ite c2 (bvshl y4 (_ bv2 64)) y4)) (n2 (ite c2 (bvadd n4 (_ bv2 64)) n4)))
 (let ((c1 (= ((_ extract 63 63) y2) #b0)))
 (let ((n1 (ite c1 (bvadd n2 (_ bv1 64)) n2)))
  (ite (= x (_ bv0 64)) (_ bv64 64) n1))))))))))))))
`

// String renders a term as a nested expression (debugging; exponential on DAGs).
func (t *Term) String() string {
	var sb strings.Builder
	t.str(&sb, 0)
	return sb.String()
}

func (t *Term) str(sb *strings.Builder, depth int) {
	if depth > 6 {
		sb.WriteString("…")
		return
	}
	switch t.op {
	case OConst:
		if t.w == 0 {
			fmt.Fprintf(sb, "%v", t.k != 0)
		} else {
			fmt.Fprintf(sb, "%d:%d", t.k, t.w)
		}
	case OVar:
		sb.WriteString(t.name)
	default:
		sb.WriteString("(")
		sb.WriteString(opNames[t.op])
		if t.op == OExtract {
			fmt.Fprintf(sb, "[%d+%d]", t.k, t.w)
		}
		for _, x := range []*Term{t.a, t.b, t.c} {
			if x != nil {
				sb.WriteString(" ")
				x.str(sb, depth+1)
			}
		}
		sb.WriteString(")")
	}
}
