package main

// The path-forking symbolic executor for Go SSA.

import (
	"fmt"
	"go/token"
	"go/types"
	"runtime"
	"sort"
	"strings"
	"sync"
	"time"

	"golang.org/x/tools/go/ssa"
)

type killPath struct{ why string }
type goPanic struct {
	val value
	msg string
}

type deferRec struct {
	fn   value
	args []value
}

const (
	fkNormal = iota
	fkCatch  // frame pushed by vCatch: a panic stops here
	fkDefer  // deferred call started by RunDefers
	fkCont   // call made by an intercept; its result goes to a native continuation
)

type Frame struct {
	fn      *ssa.Function
	info    *funcInfo
	env     []value
	block   *ssa.BasicBlock
	prev    *ssa.BasicBlock
	ip      int
	defers  []deferRec
	retTo   ssa.Value
	kind    int
	cont    func(m *Machine, r value) value
	objMark int // nextObj at entry (for purity / freshness checks)
}

type funcInfo struct {
	slots map[ssa.Value]int
	n     int
	name  string
}

var funcInfos sync.Map // *ssa.Function -> *funcInfo

func getFuncInfo(fn *ssa.Function) *funcInfo {
	if fi, ok := funcInfos.Load(fn); ok {
		return fi.(*funcInfo)
	}
	fi := &funcInfo{slots: map[ssa.Value]int{}, name: fn.String()}
	n := 0
	for _, p := range fn.Params {
		fi.slots[p] = n
		n++
	}
	for _, p := range fn.FreeVars {
		fi.slots[p] = n
		n++
	}
	for _, b := range fn.Blocks {
		for _, in := range b.Instrs {
			if v, ok := in.(ssa.Value); ok {
				fi.slots[v] = n
				n++
			}
		}
	}
	fi.n = n
	act, _ := funcInfos.LoadOrStore(fn, fi)
	return act.(*funcInfo)
}

type decision struct {
	kind uint8 // 0 bool, 1 eq value, 2 neq value, 3 choice index
	b    bool
	v    uint64
}

type trailEnt struct {
	obj *Object
	idx int
	old value
	fn  func()
}

type choice struct {
	frames      []Frame
	trailMark   int
	solverLevel int
	factsMark   int
	inputsLen   int
	pcLen       int
	obsLen      int
	nextObj     int
	replay      []decision
	model       Model
	modelOK     bool
	altModel    Model
	writesLen   int
	monGen      int
}

type inputRec struct {
	Name string
	Kind string // byte, u16, u32, u64, bool, ...
	t    *Term
}

type obsRec struct {
	id  string
	val value
}

type Violation struct {
	Harness   string
	Assertion string
	Params    map[string]int
	Inputs    map[string]uint64
	Msg       string
	Kind      string // assert | panic | unwind
}

type Config struct {
	ConcretizeParams  map[string][]int
	ConcretizeResults map[string][]int
	ConcShr           map[string][][2]int
	ConcShrParams     map[string][][2]int
	ItemTimeoutS      int
	LoopSymLimit      int
	InstrLimit        int64
	PathLimit         int
	ConcCap           int
	SymIdxCap         int
	SolverTimeoutS    int
	MaxViolations     int
	Trace             bool
}

type Machine struct {
	prog *ssa.Program
	tb   *TB
	sol  *Solver
	cfg  *Config
	lay  layout

	frames  []Frame
	trail   []trailEnt
	epoch   int
	nextObj int
	choices []choice

	globals map[*ssa.Global]*Object
	consts  map[*ssa.Const]value

	// per-instruction fork state
	replay            []decision
	replayIdx         int
	decs              []decision
	instrLevel        int
	instrPush         bool
	instrWrote        bool
	altModelIn        Model
	instrTrailMark    int
	instrFacts        int
	instrInputs       int
	instrPc           int
	instrObs          int
	instrNextObj      int
	instrMonLen       int
	mapOrderNondet    bool
	twin              bool
	pools             map[*Object][]value
	smaps             map[*Object][][2]value
	onces             map[*Object]bool
	codecUnrecognised int
	itemStart         time.Time
	noSummaries       bool
	forkProf          map[string]int
	keepHeap          bool
	rng               uint64

	pc      []*Term
	facts   map[int32]bool
	factLog []int32
	model   Model
	modelOK bool

	inputs []inputRec
	obs    []obsRec
	params map[string]int

	// monitors
	monWrites []string
	monGen    int

	// results
	paths       int64
	instrs      int64
	violations  []Violation
	assertStats map[string]*assertStat
	reached     map[string]int64
	funcsRun    map[string]bool
	stubsHit    map[string]int
	unknownFeas int
	witnesses   []Witness
	wantWitness int
	harness     string
	loopCount   map[loopKey]int

	intercepts map[string]interceptFn
	codec      *codecState
	panicVal   *goPanic
	curInstr   ssa.Instruction
}

type loopKey struct {
	depth int
	blk   *ssa.BasicBlock
}

type assertStat struct {
	Paths      int64
	Discharged int64
	Violated   int64
}

type Witness struct {
	Inputs map[string]uint64 `json:"inputs"`
	Obs    []string          `json:"obs"`
	Params map[string]int    `json:"params"`
}

type interceptFn func(m *Machine, f *Frame, args []value) (value, bool)

var pushedFrame = &struct{ x int }{1} // sentinel: intercept pushed a frame itself

func NewMachine(prog *ssa.Program, cfg *Config) (*Machine, error) {
	tb := NewTB()
	sol, err := NewSolver(tb, cfg.SolverTimeoutS)
	if err != nil {
		return nil, err
	}
	m := &Machine{prog: prog, tb: tb, sol: sol, cfg: cfg,
		lay:     layout{n: map[types.Type]int{}},
		globals: map[*ssa.Global]*Object{}, consts: map[*ssa.Const]value{},
		facts: map[int32]bool{}, assertStats: map[string]*assertStat{}, reached: map[string]int64{},
		funcsRun: map[string]bool{}, stubsHit: map[string]int{}, loopCount: map[loopKey]int{},
	}
	m.intercepts = buildIntercepts()
	for _, f := range extraIntercepts {
		f(m.intercepts)
	}
	return m, nil
}

// ---------- heap ----------

func (m *Machine) write(o *Object, i int, v value) {
	m.instrWrote = true
	if o.mon != 0 {
		m.monWrites = append(m.monWrites, fmt.Sprintf("%s[%d]", o.tag, i))
	}
	if o.epoch != m.epoch {
		m.trail = append(m.trail, trailEnt{obj: o, idx: i, old: o.cells[i]})
	}
	o.cells[i] = v
}

func (m *Machine) undoLog(fn func()) {
	m.trail = append(m.trail, trailEnt{fn: fn})
}

func (m *Machine) rollback(mark int) {
	for i := len(m.trail) - 1; i >= mark; i-- {
		e := &m.trail[i]
		if e.fn != nil {
			e.fn()
		} else {
			e.obj.cells[e.idx] = e.old
		}
	}
	m.trail = m.trail[:mark]
}

func (m *Machine) loadT(o *Object, idx int, t types.Type) value {
	if isAggType(t) {
		n := m.ncells(t)
		a := make(Agg, n)
		copy(a, o.cells[idx:idx+n])
		return a
	}
	return o.cells[idx]
}

func (m *Machine) storeT(o *Object, idx int, t types.Type, v value) {
	if isAggType(t) {
		a := v.(Agg)
		for i, c := range a {
			m.write(o, idx+i, c)
		}
		return
	}
	m.write(o, idx, v)
}

func (m *Machine) load(p value, t types.Type) value {
	switch p := p.(type) {
	case Ptr:
		if p.obj == nil {
			m.goPanicf("nil pointer dereference")
		}
		return m.loadT(p.obj, p.idx, t)
	case SymPtr:
		if cf := m.tableClosedForm(p); cf != nil {
			return cf
		}
		// ite chain over the cells in range
		var r *Term
		for i := p.hi; i >= p.lo; i-- {
			c, ok := p.obj.cells[p.off+i].(*Term)
			if !ok {
				panic(abortErr{"symbolic index over non-scalar cell"})
			}
			if r == nil {
				r = c
			} else {
				r = m.tb.Ite(m.tb.Eq(p.idx, m.tb.Const(p.idx.w, uint64(i))), c, r)
			}
		}
		return r
	}
	panic(abortErr{fmt.Sprintf("load through %T", p)})
}

// tableClosedForm recognises constant tables whose cells in range follow (1<<i)-1,
// 1<<i or ^((1<<i)-1) (bitmap.Mask / Bit / RMask and friends) and returns the
// equivalent shift expression.  The pattern is checked against the actual cells.
func (m *Machine) tableClosedForm(p SymPtr) *Term {
	if p.hi-p.lo < 3 {
		return nil
	}
	var w uint8
	kind := 7 // bit0: mask, bit1: bit, bit2: rmask
	for i := p.lo; i <= p.hi && kind != 0; i++ {
		c, ok := p.obj.cells[p.off+i].(*Term)
		if !ok || !c.IsConst() || c.w == 0 {
			return nil
		}
		w = c.w
		if i > 64 {
			return nil
		}
		var mask uint64
		if i >= 64 {
			mask = ^uint64(0)
		} else {
			mask = (uint64(1) << uint(i)) - 1
		}
		if c.k != mask&maskW(w) {
			kind &^= 1
		}
		if i >= 64 || c.k != (uint64(1)<<uint(i))&maskW(w) {
			kind &^= 2
		}
		if c.k != ^mask&maskW(w) {
			kind &^= 4
		}
	}
	if kind == 0 || w == 0 {
		return nil
	}
	tb := m.tb
	idx := tb.Resize(p.idx, w, false)
	if p.idx.w > w {
		// index wider than the element: only safe when it fits
		if p.idx.hi > maskW(w) {
			return nil
		}
	}
	one := tb.Const(w, 1)
	bit := tb.Shl(one, idx) // shift >= w yields 0, so (1<<w)-1 = all ones as required
	switch {
	case kind&1 != 0:
		return tb.Sub(bit, one)
	case kind&2 != 0:
		return bit
	default:
		return tb.BNot(tb.Sub(bit, one))
	}
}

func (m *Machine) store(p value, t types.Type, v value) {
	switch p := p.(type) {
	case Ptr:
		if p.obj == nil {
			m.goPanicf("nil pointer dereference (store)")
		}
		m.storeT(p.obj, p.idx, t, v)
		return
	case SymPtr:
		nv := v.(*Term)
		for i := p.lo; i <= p.hi; i++ {
			old := p.obj.cells[p.off+i].(*Term)
			m.write(p.obj, p.off+i, m.tb.Ite(m.tb.Eq(p.idx, m.tb.Const(p.idx.w, uint64(i))), nv, old))
		}
		return
	}
	panic(abortErr{fmt.Sprintf("store through %T", p)})
}

func (m *Machine) global(g *ssa.Global) *Object {
	if o, ok := m.globals[g]; ok {
		return o
	}
	t := g.Type().(*types.Pointer).Elem()
	o := m.newZeroObject(t, "global:"+g.String())
	o.epoch = -1
	m.globals[g] = o
	return o
}

// ---------- panics / aborts ----------

func (m *Machine) goPanicf(format string, args ...interface{}) {
	panic(goPanic{msg: fmt.Sprintf(format, args...)})
}

func abortf(format string, args ...interface{}) {
	panic(abortErr{fmt.Sprintf(format, args...)})
}

// ---------- solver interplay ----------

func (m *Machine) fact(c *Term) (bool, bool) {
	if v, ok := m.facts[c.id]; ok {
		return v, true
	}
	if c.op == ONot {
		if v, ok := m.facts[c.a.id]; ok {
			return !v, true
		}
	}
	return false, false
}

func (m *Machine) addFact(c *Term, v bool) {
	if c.op == ONot {
		c, v = c.a, !v
	}
	if _, ok := m.facts[c.id]; ok {
		return
	}
	m.facts[c.id] = v
	m.factLog = append(m.factLog, c.id)
	if v && c.op == OAnd {
		m.addFact(c.a, true)
		m.addFact(c.b, true)
	}
	if !v && c.op == OOr {
		m.addFact(c.a, false)
		m.addFact(c.b, false)
	}
}

func (m *Machine) assume(c *Term) {
	if c.IsConst() {
		if c.k == 0 {
			panic(killPath{"assume false"})
		}
		return
	}
	if v, ok := m.fact(c); ok {
		if !v {
			panic(killPath{"assume contradicts fact"})
		}
		return
	}
	if !m.instrPush {
		m.sol.Push()
		m.instrPush = true
	}
	m.sol.Assert(c)
	m.pc = append(m.pc, c)
	m.addFact(c, true)
	if m.modelOK && m.tb.Eval(c, m.model) == 0 {
		m.modelOK = false
	}
}

// feasible reports whether pc ∧ c is satisfiable (Unknown counts as feasible).
// checkItemBudget aborts the work item (INCONCLUSIVE, never a pass) when its wall-clock budget is used up.
func (m *Machine) checkItemBudget() {
	if m.cfg.ItemTimeoutS > 0 && time.Since(m.itemStart).Seconds() > float64(m.cfg.ItemTimeoutS) {
		abortf("work-item wall-clock budget exceeded (%ds) after %d paths in %s", m.cfg.ItemTimeoutS, m.paths, m.stackString())
	}
}

func (m *Machine) feasible(c *Term) (bool, Model) {
	if c.IsConst() {
		return c.k != 0, nil
	}
	if v, ok := m.fact(c); ok {
		return v, nil
	}
	if m.modelOK && m.tb.Eval(c, m.model) != 0 {
		return true, m.model
	}
	m.checkItemBudget() // also before every solver query: slow queries execute few instructions
	lvl := m.sol.level
	m.sol.Push()
	m.sol.Assert(c)
	tq := time.Now()
	r := m.sol.Check()
	var mod Model
	if r == Sat {
		mod = m.sol.Model()
	}
	m.sol.PopTo(lvl)
	if m.forkProf != nil {
		m.forkProf[fmt.Sprintf("query[%v] %s", r, m.posOf(m.curInstr))] += int(time.Since(tq).Milliseconds()) + 1000000
	}
	switch r {
	case Sat:
		if !m.modelOK {
			m.model, m.modelOK = mod, true
		}
		return true, mod
	case Unsat:
		return false, nil
	}
	m.unknownFeas++
	return true, nil
}

func (m *Machine) checkForkAllowed() {
	if m.instrWrote {
		abortf("internal: fork after heap write within one instruction (%v)", m.curInstr)
	}
}

func (m *Machine) pushChoice(alt decision, altModel Model) {
	m.checkForkAllowed()
	fr := make([]Frame, len(m.frames))
	for i := range m.frames {
		fr[i] = m.frames[i]
		e := make([]value, len(m.frames[i].env))
		copy(e, m.frames[i].env)
		fr[i].env = e
		if len(m.frames[i].defers) > 0 {
			fr[i].defers = append([]deferRec(nil), m.frames[i].defers...)
		}
	}
	rp := make([]decision, len(m.decs)+1)
	copy(rp, m.decs)
	rp[len(m.decs)] = alt
	m.choices = append(m.choices, choice{
		frames: fr, trailMark: m.instrTrail(), solverLevel: m.instrLevel, factsMark: m.instrFacts, inputsLen: m.instrInputs,
		pcLen: m.instrPc, obsLen: m.instrObs, nextObj: m.instrNextObj, replay: rp, model: m.model, modelOK: m.modelOK, altModel: altModel,
		writesLen: m.instrMonLen,
	})
	m.epoch++
}

// branch decides a boolean condition, forking when both outcomes are feasible.
func (m *Machine) branch(c *Term) bool {
	if c.IsConst() {
		return c.k != 0
	}
	if m.replayIdx < len(m.replay) {
		d := m.replay[m.replayIdx]
		m.replayIdx++
		m.decs = append(m.decs, d)
		if d.b {
			m.assume(c)
		} else {
			m.assume(m.tb.Not(c))
		}
		m.afterReplay()
		return d.b
	}
	if v, ok := m.fact(c); ok {
		return v
	}
	t, _ := m.feasible(c)
	nc := m.tb.Not(c)
	f, fm := m.feasible(nc)
	switch {
	case t && f:
		if m.forkProf != nil {
			m.forkProf[m.posOf(m.curInstr)]++
		}
		m.pushChoice(decision{kind: 0, b: false}, fm)
		m.decs = append(m.decs, decision{kind: 0, b: true})
		m.assume(c)
		return true
	case t:
		m.addFact(c, true)
		return true
	case f:
		m.addFact(c, false)
		return false
	}
	panic(killPath{"both branches infeasible"})
}

func (m *Machine) afterReplay() {
	if m.replayIdx == len(m.replay) && m.altModelIn != nil {
		ok := true
		// the alt model was computed for pc ∧ alt; check it against what was assumed in this instruction
		for _, c := range m.pc[m.instrPc:] {
			if m.tb.Eval(c, m.altModelIn) == 0 {
				ok = false
				break
			}
		}
		if ok {
			m.model, m.modelOK = m.altModelIn, true
		}
		m.altModelIn = nil
	}
}

// concretize forks over the feasible values of t and returns the chosen one.
func (m *Machine) concretize(t *Term, why string) uint64 {
	if t.IsConst() {
		return t.k
	}
	tried := 0
	for {
		if m.replayIdx < len(m.replay) {
			d := m.replay[m.replayIdx]
			m.replayIdx++
			m.decs = append(m.decs, d)
			c := m.tb.Const(t.w, d.v)
			if d.kind == 1 {
				m.assume(m.tb.Eq(t, c))
				m.afterReplay()
				return d.v
			}
			m.assume(m.tb.Not(m.tb.Eq(t, c)))
			tried++
			m.afterReplay()
			continue
		}
		if tried > m.cfg.ConcCap {
			abortf("concretization fan-out cap exceeded (%s)", why)
		}
		// need a model of the current pc
		if !m.modelOK {
			r := m.sol.Check()
			if r == Unsat {
				panic(killPath{"concretize: exhausted"})
			}
			if r == Unknown {
				abortf("unknown while concretizing (%s)", why)
			}
			m.model, m.modelOK = m.sol.Model(), true
		}
		v := m.tb.Eval(t, m.model)
		c := m.tb.Const(t.w, v)
		eq := m.tb.Eq(t, c)
		// is any other value possible?  (cheap check avoids a useless choice point)
		other, om := m.feasible(m.tb.Not(eq))
		if other {
			if m.forkProf != nil {
				m.forkProf["concretize "+why+" @"+m.posOf(m.curInstr)]++
			}
			m.pushChoice(decision{kind: 2, v: v}, om)
		}
		m.decs = append(m.decs, decision{kind: 1, v: v})
		if other {
			m.assume(eq)
		} else {
			m.addFact(eq, true)
		}
		return v
	}
}

// chooseN is an engine-level (solver-free) nondeterministic choice among n alternatives.
func (m *Machine) chooseN(n int) int {
	if n <= 1 {
		return 0
	}
	if m.replayIdx < len(m.replay) {
		d := m.replay[m.replayIdx]
		m.replayIdx++
		m.decs = append(m.decs, d)
		i := int(d.v)
		// only the decision that is being taken as the alternative chains to the next one
		if m.replayIdx == len(m.replay) && i+1 < n {
			m.pushChoiceAfterReplay(decision{kind: 3, v: uint64(i + 1)})
		}
		return i
	}
	m.pushChoice(decision{kind: 3, v: 1}, nil)
	m.decs = append(m.decs, decision{kind: 3, v: 0})
	return 0
}

func (m *Machine) pushChoiceAfterReplay(alt decision) {
	// decs already contains the replayed decision as last element; the alternative replaces it
	save := m.decs
	m.decs = m.decs[:len(m.decs)-1]
	m.pushChoice(alt, nil)
	m.decs = save
}

// ---------- per-instruction bookkeeping ----------

func (m *Machine) instrTrail() int { return m.instrTrailMark }

// (fields kept separate to keep the struct literal above readable)
var _ = 0

// ---------- running ----------

type WorkResult struct {
	Status      string // ok | violation | inconclusive
	Reason      string
	Paths       int64
	Instrs      int64
	Violations  []Violation
	AssertStats map[string]*assertStat
	Reached     map[string]int64
	Witnesses   []Witness
	Solver      SolverStats
	UnknownFeas int
	Funcs       []string
	Stubs       map[string]int
}

func (m *Machine) get(f *Frame, v ssa.Value) value {
	switch v := v.(type) {
	case *ssa.Const:
		if c, ok := m.consts[v]; ok {
			return c
		}
		c := m.constValue(v)
		m.consts[v] = c
		return c
	case *ssa.Global:
		return Ptr{obj: m.global(v)}
	case *ssa.Function:
		return Func{fn: v}
	case *ssa.Builtin:
		return v
	}
	s, ok := f.info.slots[v]
	if !ok {
		abortf("no slot for %s in %s", v.Name(), f.fn)
	}
	return f.env[s]
}

func (m *Machine) set(f *Frame, v ssa.Value, x value) {
	f.env[f.info.slots[v]] = x
}

func (m *Machine) pushFrame(fn *ssa.Function, args []value, env []value, retTo ssa.Value, kind int) {
	if fn.Blocks == nil {
		abortf("call of function without body: %s", fn)
	}
	if len(m.frames) > 400 {
		abortf("call depth limit exceeded at %s", fn)
	}
	fi := getFuncInfo(fn)
	if !m.funcsRun[fi.name] {
		m.funcsRun[fi.name] = true
	}
	e := make([]value, fi.n)
	copy(e, args)
	copy(e[len(fn.Params):], env)
	m.frames = append(m.frames, Frame{fn: fn, info: fi, env: e, block: fn.Blocks[0], retTo: retTo, kind: kind, objMark: m.nextObj})
}

// Run executes the harness function to completion over all paths.
func (m *Machine) Run(fn *ssa.Function, harness string, params map[string]int) (res WorkResult) {
	m.harness = harness
	m.params = params
	baseTrail := len(m.trail)
	baseLevel := m.sol.level
	defer func() {
		if r := recover(); r != nil {
			if a, ok := r.(abortErr); ok {
				res = m.result("inconclusive", a.msg)
			} else {
				panic(r)
			}
		}
		// reset state for the next work item
		m.frames = m.frames[:0]
		m.choices = m.choices[:0]
		m.replay = nil
		m.mapOrderNondet = false
		m.altModelIn = nil
		m.panicVal = nil
		if !m.keepHeap {
			m.rollback(baseTrail)
		}
		m.sol.PopTo(baseLevel)
		for _, id := range m.factLog {
			delete(m.facts, id)
		}
		m.factLog = m.factLog[:0]
		m.pc = m.pc[:0]
		m.inputs = m.inputs[:0]
		m.obs = m.obs[:0]
		m.modelOK = false
		m.epoch++
	}()
	m.paths, m.instrs = 0, 0
	m.pools = map[*Object][]value{}
	m.smaps = map[*Object][][2]value{}
	m.onces = map[*Object]bool{}
	m.smaps = map[*Object][][2]value{}
	m.onces = map[*Object]bool{}
	m.monWrites = m.monWrites[:0]
	m.codec = nil
	m.codecUnrecognised = 0
	m.itemStart = time.Now()
	m.violations = nil
	m.witnesses = nil
	m.assertStats = map[string]*assertStat{}
	m.reached = map[string]int64{}
	m.unknownFeas = 0
	m.sol.stats = SolverStats{}
	m.epoch++
	m.pushFrame(fn, nil, nil, nil, fkNormal)
	m.loop()
	status := "ok"
	if len(m.violations) > 0 {
		status = "violation"
	}
	return m.result(status, "")
}

func (m *Machine) result(status, reason string) WorkResult {
	var fs []string
	for f := range m.funcsRun {
		fs = append(fs, f)
	}
	sort.Strings(fs)
	return WorkResult{Status: status, Reason: reason, Paths: m.paths, Instrs: m.instrs, Violations: m.violations,
		AssertStats: m.assertStats, Reached: m.reached, Witnesses: m.witnesses, Solver: m.sol.stats,
		UnknownFeas: m.unknownFeas, Funcs: fs, Stubs: m.stubsHit}
}

func (m *Machine) backtrack() bool {
	if len(m.choices) == 0 {
		return false
	}
	c := m.choices[len(m.choices)-1]
	m.choices = m.choices[:len(m.choices)-1]
	m.frames = c.frames
	m.rollback(c.trailMark)
	m.sol.PopTo(c.solverLevel)
	for _, id := range m.factLog[c.factsMark:] {
		delete(m.facts, id)
	}
	m.factLog = m.factLog[:c.factsMark]
	m.inputs = m.inputs[:c.inputsLen]
	m.pc = m.pc[:c.pcLen]
	m.obs = m.obs[:c.obsLen]
	m.monWrites = m.monWrites[:c.writesLen]
	m.nextObj = c.nextObj
	m.replay = c.replay
	m.model, m.modelOK = c.model, c.modelOK
	m.altModelIn = c.altModel
	m.epoch++
	m.panicVal = nil
	return true
}

func (m *Machine) endPath(kind string) {
	m.paths++
	if m.cfg.PathLimit > 0 && m.paths > int64(m.cfg.PathLimit) {
		abortf("path budget exceeded (%d)", m.cfg.PathLimit)
	}
	if kind == "return" && len(m.witnesses) < m.wantWitness {
		func() {
			// a path kept on an `unknown` feasibility answer can turn out infeasible here
			defer func() {
				if r := recover(); r != nil {
					if _, ok := r.(killPath); ok {
						m.paths--
						return
					}
					panic(r)
				}
			}()
			m.takeWitness()
		}()
	}
}

func (m *Machine) loop() {
	for {
		if len(m.frames) == 0 {
			m.endPath("return")
			if !m.backtrack() {
				return
			}
			continue
		}
		if !m.step() {
			if !m.backtrack() {
				return
			}
		}
	}
}

// step executes one instruction of the top frame; returns false when the path ended.
func (m *Machine) step() (alive bool) {
	f := &m.frames[len(m.frames)-1]
	in := f.block.Instrs[f.ip]
	m.curInstr = in
	// instruction-start marks (used by choice points created inside this instruction)
	m.instrTrailMark = len(m.trail)
	m.instrLevel = m.sol.level
	m.instrFacts = len(m.factLog)
	m.instrInputs = len(m.inputs)
	m.instrPc = len(m.pc)
	m.instrObs = len(m.obs)
	m.instrNextObj = m.nextObj
	m.instrMonLen = len(m.monWrites)
	m.instrPush = false
	m.instrWrote = false
	m.replayIdx = 0
	m.decs = m.decs[:0]
	m.instrs++
	if m.instrs&0xfff == 0 {
		m.checkItemBudget()
	}
	if m.cfg.InstrLimit > 0 && m.instrs > m.cfg.InstrLimit {
		abortf("instruction budget exceeded (%d) in %s at %v", m.cfg.InstrLimit, m.stackString(), in)
	}
	defer func() {
		if r := recover(); r != nil {
			switch r := r.(type) {
			case killPath:
				alive = false
			case goPanic:
				alive = m.unwind(r)
			case abortErr:
				panic(abortErr{r.msg + " [at " + m.posOf(in) + " in " + m.stackString() + "]"})
			default:
				buf := make([]byte, 4096)
				buf = buf[:runtime.Stack(buf, false)]
				panic(abortErr{fmt.Sprintf("internal error: %v at %v (%s) in %s\n%s", r, in, m.posOf(in), m.stackString(), buf)})
			}
		}
		m.replay = nil
	}()
	if m.cfg.Trace {
		fmt.Printf("%s%s: %v\n", strings.Repeat(" ", len(m.frames)), f.fn.Name(), in)
	}
	m.exec(f, in)
	if m.replayIdx < len(m.replay) {
		abortf("internal: replay decisions left over at %v in %s", in, f.fn)
	}
	return true
}

// unwind handles a Go panic: pops frames up to the nearest vCatch frame.
func (m *Machine) unwind(p goPanic) bool {
	for len(m.frames) > 0 {
		top := &m.frames[len(m.frames)-1]
		if top.kind == fkCatch {
			retTo := top.retTo
			m.frames = m.frames[:len(m.frames)-1]
			caller := &m.frames[len(m.frames)-1]
			if retTo != nil {
				m.set(caller, retTo, m.tb.True)
			}
			caller.ip++
			return true
		}
		m.frames = m.frames[:len(m.frames)-1]
	}
	// uncaught panic: implicit no-panic assertion fails on this path -- unless the path, kept
	// on an `unknown` feasibility answer, turns out infeasible now that a model is needed
	infeasible := false
	func() {
		defer func() {
			if r := recover(); r != nil {
				if _, ok := r.(killPath); ok {
					infeasible = true
					return
				}
				panic(r)
			}
		}()
		m.recordViolation("panic", "no-panic", p.msg)
	}()
	if infeasible {
		return false
	}
	m.endPath("panic")
	return false
}

func (m *Machine) posOf(in ssa.Instruction) string {
	if in == nil {
		return "?"
	}
	p := m.prog.Fset.Position(in.Pos())
	if p.IsValid() {
		return fmt.Sprintf("%s:%d", p.Filename, p.Line)
	}
	return in.Parent().String()
}

var _ = token.NoPos

func (m *Machine) stackString() string {
	var sb strings.Builder
	for i := len(m.frames) - 1; i >= 0 && i >= len(m.frames)-8; i-- {
		if i < len(m.frames)-1 {
			sb.WriteString(" <- ")
		}
		sb.WriteString(m.frames[i].fn.String())
	}
	return sb.String()
}

// callCont calls an interpreted function on behalf of an intercept of the current Call
// instruction; when it returns, cont receives the result and either returns the value of
// the intercepted call or starts another callCont (returning pushedFrame).
// Continuations must be pure functions of their captured (immutable) data and r.
func (m *Machine) callCont(fn *ssa.Function, args []value, env []value, cont func(m *Machine, r value) value) value {
	top := &m.frames[len(m.frames)-1]
	var res ssa.Value
	if v, ok := top.block.Instrs[top.ip].(ssa.Value); ok {
		res = v
	}
	m.pushFrame(fn, args, env, res, fkCont)
	m.frames[len(m.frames)-1].cont = cont
	return pushedFrame
}

// methodOf finds the method `name` of the dynamic type of an interface value.
func (m *Machine) methodOf(t types.Type, name string) *ssa.Function {
	ms := m.prog.MethodSets.MethodSet(t)
	for i := 0; i < ms.Len(); i++ {
		sel := ms.At(i)
		if sel.Obj().Name() == name {
			return m.prog.MethodValue(sel)
		}
	}
	return nil
}
