package main

// Protobuf codec stub (assumption A-PB), encoding/binary model, reflect.Type dispatch.
//
// proto.Marshal on a generated message returns a fresh byte slice of opaque (unconstrained
// symbolic) bytes and records body -> deep copy of the message in proto3 normal form;
// proto.Unmarshal recognises a recorded body by the identity of its byte terms and fills
// the target with a fresh copy.  Types with their own Marshal/Unmarshal methods
// (pbcmpl.header) run their real code.

import (
	"fmt"
	"go/types"
	"strings"
)

type bodyRec struct {
	bytes []*Term
	st    *types.Struct
	named types.Type
	form  Agg
}

type codecState struct {
	bodies []bodyRec
	serial int
}

func (m *Machine) codecGet() *codecState {
	if m.codec == nil {
		m.codec = &codecState{}
	}
	return m.codec
}

// findMessage locates the generated message struct (the one declaring XXX_unrecognized)
// inside the struct of type st at obj/idx, descending through embedded fields.
func (m *Machine) findMessage(t types.Type, obj *Object, idx int) (types.Type, *types.Struct, *Object, int, bool) {
	st, ok := t.Underlying().(*types.Struct)
	if !ok {
		return nil, nil, nil, 0, false
	}
	for i := 0; i < st.NumFields(); i++ {
		if st.Field(i).Name() == "XXX_unrecognized" {
			return t, st, obj, idx, true
		}
	}
	off := 0
	for i := 0; i < st.NumFields(); i++ {
		f := st.Field(i)
		if f.Embedded() {
			ft := f.Type()
			if pt, isP := ft.Underlying().(*types.Pointer); isP {
				p := obj.cells[idx+off].(Ptr)
				if p.obj != nil {
					if nt, ns, no, ni, ok := m.findMessage(pt.Elem(), p.obj, p.idx); ok {
						return nt, ns, no, ni, true
					}
				}
			} else if nt, ns, no, ni, ok := m.findMessage(ft, obj, idx+off); ok {
				return nt, ns, no, ni, true
			}
		}
		off += m.ncells(f.Type())
	}
	return nil, nil, nil, 0, false
}

// goSizeClass rounds a noscan allocation of n bytes up to the Go runtime's size class
// (runtime/sizeclasses.go; unchanged since go1.16 for these sizes), page-rounded above 32 KiB.
func goSizeClass(n int) int {
	classes := []int{8, 16, 24, 32, 48, 64, 80, 96, 112, 128, 144, 160, 176, 192, 208, 224, 240, 256, 288, 320, 352, 384, 416, 448, 480, 512, 576, 640, 704, 768, 896, 1024, 1152, 1280, 1408, 1536, 1792, 2048, 2304, 2688, 3072, 3200, 3456, 4096, 4864, 5376, 6144, 6528, 6784, 6912, 8192, 9472, 9728, 10240, 10880, 12288, 13568, 14336, 16384, 18432, 19072, 20480, 21760, 24576, 27264, 28672, 32768}
	for _, c := range classes {
		if n <= c {
			return c
		}
	}
	return (n + 8191) / 8192 * 8192
}

// pbCopy deep-copies a message struct into proto3 normal form.
// aliasOf, when non-nil, marks every new byte-slice object as derived from that object.
func (m *Machine) pbCopy(st *types.Struct, src []value, aliasOf *Object, count *int) Agg {
	out := make(Agg, len(src))
	off := 0
	for i := 0; i < st.NumFields(); i++ {
		f := st.Field(i)
		n := m.ncells(f.Type())
		cells := src[off : off+n]
		dst := out[off : off+n]
		off += n
		if strings.HasPrefix(f.Name(), "XXX_") && f.Name() != "XXX_unrecognized" {
			if n > 0 {
				m.zeroCells(f.Type(), dst)
			}
			continue
		}
		// XXX_unrecognized ([]byte) is carried like a bytes field: golang/protobuf re-emits unknown
		// fields on Marshal and keeps them on Unmarshal (0.5.10 streams carry reserved fields)
		switch u := f.Type().Underlying().(type) {
		case *types.Basic:
			dst[0] = cells[0]
			*count++
		case *types.Slice:
			s := cells[0].(Slice)
			if s.len == 0 {
				dst[0] = Slice{esz: s.esz}
				continue
			}
			if pt, isP := u.Elem().Underlying().(*types.Pointer); isP {
				// repeated message
				o := m.newObject(s.len, "pb:repeated")
				for k := 0; k < s.len; k++ {
					p := s.obj.cells[s.off+k].(Ptr)
					o.cells[k] = m.pbCopyPtr(pt, p, aliasOf, count)
				}
				dst[0] = Slice{obj: o, len: s.len, cap: s.len, esz: 1}
				continue
			}
			// a decoded []byte is `append([]byte{}, b...)`: its capacity is the allocator's size class and
			// the slack is zero; code that re-slices up to cap must see that, as the native replay does
			capn := s.len
			if b, isB := u.Elem().Underlying().(*types.Basic); isB && b.Kind() == types.Uint8 && s.esz == 1 {
				capn = goSizeClass(s.len)
			}
			o := m.newObject(capn*s.esz, "pb:"+f.Name())
			copy(o.cells, s.obj.cells[s.off:s.off+s.len*s.esz])
			for k := s.len * s.esz; k < capn*s.esz; k++ {
				o.cells[k] = m.tb.Const(8, 0)
			}
			o.aliasOf = aliasOf
			*count += s.len
			dst[0] = Slice{obj: o, len: s.len, cap: capn, esz: s.esz}
		case *types.Pointer:
			dst[0] = m.pbCopyPtr(u, cells[0].(Ptr), aliasOf, count)
		case *types.Struct:
			// embedded by value (not produced by protoc for proto3 messages)
			copy(dst, m.pbCopy(u, cells, aliasOf, count))
		default:
			abortf("codec stub: unsupported field %s of type %s", f.Name(), f.Type())
		}
	}
	return out
}

func (m *Machine) pbCopyPtr(pt *types.Pointer, p Ptr, aliasOf *Object, count *int) value {
	if p.obj == nil {
		return Ptr{}
	}
	est, ok := pt.Elem().Underlying().(*types.Struct)
	if !ok {
		abortf("codec stub: pointer field to %s", pt.Elem())
	}
	n := m.ncells(pt.Elem())
	cp := m.pbCopy(est, p.obj.cells[p.idx:p.idx+n], aliasOf, count)
	o := m.newObject(n, "pb:"+pt.Elem().String())
	copy(o.cells, cp)
	*count++
	return Ptr{obj: o}
}

func bodyLen(count int) int { return 4 + count%9 }

// codecMarshal implements proto.Marshal for generated messages.
func (m *Machine) codecMarshal(msg Iface, record bool) (Slice, int) {
	pt, ok := msg.t.Underlying().(*types.Pointer)
	if !ok {
		abortf("codec stub: proto.Marshal of non-pointer %s", msg.t)
	}
	p := msg.v.(Ptr)
	if p.obj == nil {
		abortf("codec stub: proto.Marshal of nil message")
	}
	named, st, mobj, idx, found := m.findMessage(pt.Elem(), p.obj, p.idx)
	if !found {
		abortf("codec stub: %s is not a generated message", msg.t)
	}
	n := m.ncells(named)
	count := 0
	form := m.pbCopy(st, mobj.cells[idx:idx+n], nil, &count)
	N := bodyLen(count)
	if !record {
		return Slice{}, N
	}
	c := m.codecGet()
	serial := len(c.bodies)
	bs := make([]*Term, N)
	for i := range bs {
		bs[i] = m.tb.Var(fmt.Sprintf("pb!%d#%d", serial, i), 8)
	}
	c.bodies = append(c.bodies, bodyRec{bytes: bs, st: st, named: named, form: form})
	m.undoLog(func() { c.bodies = c.bodies[:serial] })
	m.stubsHit["proto.Marshal(opaque injective codec, A-PB)"]++
	return m.newByteSlice(append([]*Term(nil), bs...), "pb:body"), N
}

// codecSameWire: do two generated messages have the same proto3 normal form, i.e. (A-PB) the same
// serialisation?  Empty slices/strings and zero scalars are absent on the wire; a nil sub-message
// differs from an empty one.
func (m *Machine) codecSameWire(a, b Iface) *Term {
	form := func(msg Iface) (types.Type, Agg) {
		pt, ok := msg.t.Underlying().(*types.Pointer)
		if !ok {
			abortf("vSameWire of non-pointer %s", msg.t)
		}
		p := msg.v.(Ptr)
		if p.obj == nil {
			abortf("vSameWire of nil message")
		}
		named, st, mobj, idx, found := m.findMessage(pt.Elem(), p.obj, p.idx)
		if !found {
			abortf("vSameWire: %s is not a generated message", msg.t)
		}
		count := 0
		return named, m.pbCopy(st, mobj.cells[idx:idx+m.ncells(named)], nil, &count)
	}
	ta, fa := form(a)
	tb2, fb := form(b)
	if !types.Identical(ta, tb2) {
		return m.tb.False
	}
	return m.deepEqualT(fa, fb, ta, 0, map[[2]*Object]bool{})
}

// codecUnmarshal implements proto.Unmarshal for generated messages.
func (m *Machine) codecUnmarshal(buf Slice, msg Iface) value {
	pt, ok := msg.t.Underlying().(*types.Pointer)
	if !ok {
		abortf("codec stub: proto.Unmarshal into non-pointer %s", msg.t)
	}
	p := msg.v.(Ptr)
	if p.obj == nil {
		abortf("codec stub: proto.Unmarshal into nil message")
	}
	named, st, mobj, idx, found := m.findMessage(pt.Elem(), p.obj, p.idx)
	if !found {
		abortf("codec stub: %s is not a generated message", msg.t)
	}
	p = Ptr{obj: mobj, idx: idx}
	n := m.ncells(named)
	// Reset (golang/protobuf calls pb.Reset() first; for generated messages *m = T{})
	z := make(Agg, n)
	m.zeroCells(named, z)
	for i, c := range z {
		m.write(p.obj, idx+i, c)
	}
	if buf.len == 0 {
		// an empty body is the empty message
		m.stubsHit["proto.Unmarshal(empty body)"]++
		return Iface{}
	}
	c := m.codecGet()
	bs := m.sliceBytes(buf)
	for k := len(c.bodies) - 1; k >= 0; k-- {
		r := c.bodies[k]
		if len(r.bytes) != len(bs) {
			continue
		}
		same := true
		for i := range bs {
			if bs[i] != r.bytes[i] {
				same = false
				break
			}
		}
		if !same {
			continue
		}
		if !types.Identical(r.named, named) {
			m.stubsHit["proto.Unmarshal(body of another message type -> error)"]++
			return m.newError("proto: opaque body belongs to a different message type")
		}
		count := 0
		cp := m.pbCopy(st, r.form, buf.obj, &count)
		for i, cell := range cp {
			m.write(p.obj, idx+i, cell)
		}
		m.stubsHit["proto.Unmarshal(opaque injective codec, A-PB)"]++
		return Iface{}
	}
	m.stubsHit["proto.Unmarshal(unrecognised body -> error)"]++
	m.codecUnrecognised++
	m.undoLog(func() { m.codecUnrecognised-- })
	return m.newError("proto: cannot parse (opaque body not recognised)")
}

func init() {
	extraIntercepts = append(extraIntercepts, func(ic map[string]interceptFn) {
		const pp = "github.com/golang/protobuf/proto."
		ic[pp+"Marshal"] = func(m *Machine, f *Frame, a []value) (value, bool) {
			msg := a[0].(Iface)
			if msg.t == nil {
				abortf("proto.Marshal(nil)")
			}
			if fn := m.methodOf(msg.t, "Marshal"); fn != nil {
				return m.callCont(fn, []value{msg.v}, nil, func(m *Machine, r value) value { return r }), true
			}
			body, _ := m.codecMarshal(msg, true)
			return Tuple{body, Iface{}}, true
		}
		ic[pp+"Size"] = func(m *Machine, f *Frame, a []value) (value, bool) {
			msg := a[0].(Iface)
			_, n := m.codecMarshal(msg, false)
			return m.tb.Const(64, uint64(n)), true
		}
		ic[pp+"Unmarshal"] = func(m *Machine, f *Frame, a []value) (value, bool) {
			buf := a[0].(Slice)
			msg := a[1].(Iface)
			if msg.t == nil {
				abortf("proto.Unmarshal(nil)")
			}
			if un := m.methodOf(msg.t, "Unmarshal"); un != nil {
				reset := m.methodOf(msg.t, "Reset")
				if reset == nil {
					return m.callCont(un, []value{msg.v, buf}, nil, func(m *Machine, r value) value { return r }), true
				}
				return m.callCont(reset, []value{msg.v}, nil, func(m *Machine, r value) value {
					return m.callCont(un, []value{msg.v, buf}, nil, func(m *Machine, r value) value { return r })
				}), true
			}
			return m.codecUnmarshal(buf, msg), true
		}

		// ---- encoding/binary.Write / Read (model of std; layout from go/types) ----
		ic["encoding/binary.Write"] = func(m *Machine, f *Frame, a []value) (value, bool) {
			w := a[0].(Iface)
			order := a[1].(Iface)
			data := a[2].(Iface)
			big := strings.Contains(order.t.String(), "bigEndian")
			bs, ok := m.binEncode(data.t, data.v, big, true)
			if !ok {
				return m.newError("binary.Write: invalid type " + data.t.String()), true
			}
			m.stubsHit["encoding/binary.Write(layout model)"]++
			wr := m.methodOf(w.t, "Write")
			if wr == nil {
				abortf("binary.Write: writer %s has no Write", w.t)
			}
			var sl Slice
			if len(bs) == 0 {
				sl = Slice{obj: m.newObject(0, "binwrite"), esz: 1}
			} else {
				sl = m.newByteSlice(bs, "binwrite")
			}
			return m.callCont(wr, []value{w.v, sl}, nil, func(m *Machine, r value) value {
				return r.(Tuple)[1]
			}), true
		}
		ic["encoding/binary.Read"] = func(m *Machine, f *Frame, a []value) (value, bool) {
			r := a[0]
			order := a[1].(Iface)
			data := a[2].(Iface)
			big := strings.Contains(order.t.String(), "bigEndian")
			n := m.binSize(data.t, data.v, true)
			if n < 0 {
				return m.newError("binary.Read: invalid type " + data.t.String()), true
			}
			m.stubsHit["encoding/binary.Read(layout model)"]++
			o := m.newObject(n, "binread")
			z := m.tb.Const(8, 0)
			for i := range o.cells {
				o.cells[i] = z
			}
			buf := Slice{obj: o, len: n, cap: n, esz: 1}
			rf := m.lookupFunc("io", "ReadFull")
			return m.callCont(rf, []value{r, buf}, nil, func(m *Machine, res value) value {
				err := res.(Tuple)[1].(Iface)
				if err.t != nil {
					return err
				}
				bs := make([]*Term, n)
				for i := range bs {
					bs[i] = o.cells[i].(*Term)
				}
				m.binDecode(data.t, data.v, bs, big)
				return Iface{}
			}), true
		}

		// ---- sync.Pool: sequential model (LIFO free list per pool object) ----
		poolNew := func(m *Machine, p Ptr) value {
			for _, pk := range m.prog.AllPackages() {
				if pk.Pkg.Path() == "sync" {
					st := pk.Pkg.Scope().Lookup("Pool").Type().Underlying().(*types.Struct)
					for i := 0; i < st.NumFields(); i++ {
						if st.Field(i).Name() == "New" {
							return p.obj.cells[p.idx+m.fieldOff(st, i)]
						}
					}
				}
			}
			return Func{}
		}
		ic["(*sync.Pool).Get"] = func(m *Machine, f *Frame, a []value) (value, bool) {
			p := a[0].(Ptr)
			m.stubsHit["sync.Pool(sequential LIFO model)"]++
			if lst := m.pools[p.obj]; len(lst) > 0 {
				v := lst[len(lst)-1]
				m.undoLog(func() { m.pools[p.obj] = lst })
				m.pools[p.obj] = lst[: len(lst)-1 : len(lst)-1]
				return v, true
			}
			nf := poolNew(m, p).(Func)
			if nf.fn == nil {
				return Iface{}, true
			}
			return m.callCont(nf.fn, nil, nf.env, func(m *Machine, r value) value { return r }), true
		}
		ic["(*sync.Pool).Put"] = func(m *Machine, f *Frame, a []value) (value, bool) {
			p := a[0].(Ptr)
			if m.pools == nil {
				m.pools = map[*Object][]value{}
			}
			lst := m.pools[p.obj]
			m.undoLog(func() { m.pools[p.obj] = lst })
			m.pools[p.obj] = append(lst[:len(lst):len(lst)], a[1])
			return nil, true
		}

		// ---- sync.Map: sequential model (association list per map object) ----
		smFind := func(m *Machine, o *Object, k value) int {
			for i, e := range m.smaps[o] {
				eq := m.valEq(e[0], k)
				if eq.IsConst() {
					if eq.k != 0 {
						return i
					}
					continue
				}
				if m.branch(eq) {
					return i
				}
			}
			return -1
		}
		smSet := func(m *Machine, o *Object, lst [][2]value) {
			old := m.smaps[o]
			m.undoLog(func() { m.smaps[o] = old })
			m.smaps[o] = lst
		}
		ic["(*sync.Map).Load"] = func(m *Machine, f *Frame, a []value) (value, bool) {
			o := a[0].(Ptr).obj
			m.stubsHit["sync.Map(sequential model)"]++
			if i := smFind(m, o, a[1]); i >= 0 {
				return Tuple{m.smaps[o][i][1], m.tb.True}, true
			}
			return Tuple{Iface{}, m.tb.False}, true
		}
		ic["(*sync.Map).Store"] = func(m *Machine, f *Frame, a []value) (value, bool) {
			o := a[0].(Ptr).obj
			lst := append([][2]value(nil), m.smaps[o]...)
			if i := smFind(m, o, a[1]); i >= 0 {
				lst[i] = [2]value{a[1], a[2]}
			} else {
				lst = append(lst, [2]value{a[1], a[2]})
			}
			smSet(m, o, lst)
			return nil, true
		}
		ic["(*sync.Map).LoadOrStore"] = func(m *Machine, f *Frame, a []value) (value, bool) {
			o := a[0].(Ptr).obj
			if i := smFind(m, o, a[1]); i >= 0 {
				return Tuple{m.smaps[o][i][1], m.tb.True}, true
			}
			lst := append(append([][2]value(nil), m.smaps[o]...), [2]value{a[1], a[2]})
			smSet(m, o, lst)
			return Tuple{a[2], m.tb.False}, true
		}
		ic["(*sync.Map).Delete"] = func(m *Machine, f *Frame, a []value) (value, bool) {
			o := a[0].(Ptr).obj
			if i := smFind(m, o, a[1]); i >= 0 {
				lst := append([][2]value(nil), m.smaps[o]...)
				lst = append(lst[:i], lst[i+1:]...)
				smSet(m, o, lst)
			}
			return nil, true
		}
		for _, n := range []string{"(*sync.Mutex).Lock", "(*sync.Mutex).Unlock", "(*sync.RWMutex).Lock", "(*sync.RWMutex).Unlock", "(*sync.RWMutex).RLock", "(*sync.RWMutex).RUnlock"} {
			ic[n] = func(m *Machine, f *Frame, a []value) (value, bool) {
				m.stubsHit["sync mutex (no-op: sequential execution)"]++
				return nil, true
			}
		}
		ic["(*sync.Once).Do"] = func(m *Machine, f *Frame, a []value) (value, bool) {
			o := a[0].(Ptr).obj
			if m.onces[o] {
				return nil, true
			}
			m.undoLog(func() { delete(m.onces, o) })
			m.onces[o] = true
			fv := a[1].(Func)
			return m.callCont(fv.fn, nil, fv.env, func(m *Machine, r value) value { return nil }), true
		}

		// ---- sync/atomic.Value: the single interface cell of the struct holds the value ----
		ic["(*sync/atomic.Value).Load"] = func(m *Machine, f *Frame, a []value) (value, bool) {
			p := a[0].(Ptr)
			m.stubsHit["sync/atomic.Value (sequential model)"]++
			v := p.obj.cells[p.idx]
			if v == nil {
				return Iface{}, true
			}
			return v, true
		}
		ic["(*sync/atomic.Value).Store"] = func(m *Machine, f *Frame, a []value) (value, bool) {
			p := a[0].(Ptr)
			m.stubsHit["sync/atomic.Value (sequential model)"]++
			if iv, ok := a[1].(Iface); !ok || iv.t == nil {
				m.goPanicf("sync/atomic: store of nil value into Value")
			}
			m.write(p.obj, p.idx, a[1])
			return nil, true
		}
		for _, w := range []string{"Int32", "Int64", "Uint32", "Uint64"} {
			w := w
			ic["sync/atomic.Load"+w] = func(m *Machine, f *Frame, a []value) (value, bool) {
				p := a[0].(Ptr)
				return p.obj.cells[p.idx], true
			}
			ic["sync/atomic.Store"+w] = func(m *Machine, f *Frame, a []value) (value, bool) {
				p := a[0].(Ptr)
				m.write(p.obj, p.idx, a[1])
				return nil, true
			}
			ic["sync/atomic.Add"+w] = func(m *Machine, f *Frame, a []value) (value, bool) {
				p := a[0].(Ptr)
				nv := m.tb.Add(p.obj.cells[p.idx].(*Term), a[1].(*Term))
				m.write(p.obj, p.idx, nv)
				return nv, true
			}
		}

		// ---- reflect.New and reflect.Type values ----
		ic["reflect.New"] = func(m *Machine, f *Frame, a []value) (value, bool) {
			rt := a[0].(Iface).v.(reflType)
			o := m.newZeroObject(rt.t, "reflect.New")
			return reflVal{v: Ptr{obj: o}, t: types.NewPointer(rt.t)}, true
		}
	})
}

var extraIntercepts []func(ic map[string]interceptFn)

// reflTypeMethod dispatches a method call on a reflect.Type value.
func (m *Machine) reflTypeMethod(rt reflType, name string) *nativeFn {
	switch name {
	case "Kind":
		return &nativeFn{name: "Type.Kind", f: func(m *Machine, args []value) value {
			return m.tb.Const(64, uint64(kindOf(rt.t)))
		}}
	case "Elem":
		return &nativeFn{name: "Type.Elem", f: func(m *Machine, args []value) value {
			switch u := rt.t.Underlying().(type) {
			case *types.Pointer:
				return Iface{t: reflTypeT, v: reflType{u.Elem()}}
			case *types.Slice:
				return Iface{t: reflTypeT, v: reflType{u.Elem()}}
			case *types.Array:
				return Iface{t: reflTypeT, v: reflType{u.Elem()}}
			}
			m.goPanicf("reflect: Elem of invalid type %s", rt.t)
			return nil
		}}
	case "NumField":
		return &nativeFn{name: "Type.NumField", f: func(m *Machine, args []value) value {
			st, ok := rt.t.Underlying().(*types.Struct)
			if !ok {
				m.goPanicf("reflect: NumField of non-struct type %s", rt.t)
			}
			return m.tb.Const(64, uint64(st.NumFields()))
		}}
	case "Len":
		return &nativeFn{name: "Type.Len", f: func(m *Machine, args []value) value {
			at, ok := rt.t.Underlying().(*types.Array)
			if !ok {
				m.goPanicf("reflect: Len of non-array type %s", rt.t)
			}
			return m.tb.Const(64, uint64(at.Len()))
		}}
	case "Field":
		return &nativeFn{name: "Type.Field", f: func(m *Machine, args []value) value {
			st, ok := rt.t.Underlying().(*types.Struct)
			if !ok {
				m.goPanicf("reflect: Field of non-struct type %s", rt.t)
			}
			i := m.concInt(args[0].(*Term), true, "reflect Field index")
			if i < 0 || i >= st.NumFields() {
				m.goPanicf("reflect: Field index out of bounds")
			}
			var sft *types.Struct
			var sfNamed types.Type
			for _, pk := range m.prog.AllPackages() {
				if pk.Pkg.Path() == "reflect" {
					sfNamed = pk.Pkg.Scope().Lookup("StructField").Type()
					sft = sfNamed.Underlying().(*types.Struct)
				}
			}
			out := make(Agg, m.ncells(sfNamed))
			m.zeroCells(sfNamed, out)
			fld := st.Field(i)
			for k := 0; k < sft.NumFields(); k++ {
				off := m.fieldOff(sft, k)
				switch sft.Field(k).Name() {
				case "Name":
					out[off] = Str{s: fld.Name()}
				case "Type":
					out[off] = Iface{t: reflTypeT, v: reflType{fld.Type()}}
				case "Anonymous":
					out[off] = m.tb.Bool(fld.Embedded())
				case "PkgPath":
					if !fld.Exported() && fld.Pkg() != nil {
						out[off] = Str{s: fld.Pkg().Path()}
					}
				}
			}
			return out
		}}
	case "String", "Name":
		return &nativeFn{name: "Type.String", f: func(m *Machine, args []value) value {
			return Str{s: rt.t.String()}
		}}
	case "Size":
		return &nativeFn{name: "Type.Size", f: func(m *Machine, args []value) value {
			// reflect.Type.Size is the in-memory size (alignment padding included), gc/amd64
			return m.tb.Const(64, uint64(types.SizesFor("gc", "amd64").Sizeof(rt.t)))
		}}
	}
	abortf("reflect.Type method %s not modelled", name)
	return nil
}

// binEncode lays out a value as encoding/binary does for fixed-size data.
func (m *Machine) binEncode(t types.Type, v value, big, top bool) ([]*Term, bool) {
	tb := m.tb
	switch u := t.Underlying().(type) {
	case *types.Basic:
		if w, _, ok := intInfo(u); ok {
			if u.Kind() == types.Int || u.Kind() == types.Uint || u.Kind() == types.Uintptr {
				return nil, false
			}
			x := v.(*Term)
			n := int(w) / 8
			bs := make([]*Term, n)
			for k := 0; k < n; k++ {
				b := tb.Extract(x, uint8(8*k), 8)
				if big {
					bs[n-1-k] = b
				} else {
					bs[k] = b
				}
			}
			return bs, true
		}
		if u.Kind() == types.Bool {
			return []*Term{tb.Ite(v.(*Term), tb.Const(8, 1), tb.Const(8, 0))}, true
		}
		return nil, false
	case *types.Pointer:
		if !top {
			return nil, false
		}
		p := v.(Ptr)
		if p.obj == nil {
			return nil, false
		}
		return m.binEncode(u.Elem(), m.loadT(p.obj, p.idx, u.Elem()), big, false)
	case *types.Array:
		a := v.(Agg)
		esz := m.ncells(u.Elem())
		var out []*Term
		for i := 0; i < int(u.Len()); i++ {
			var ev value
			if isAggType(u.Elem()) {
				ev = Agg(a[i*esz : (i+1)*esz])
			} else {
				ev = a[i*esz]
			}
			bs, ok := m.binEncode(u.Elem(), ev, big, false)
			if !ok {
				return nil, false
			}
			out = append(out, bs...)
		}
		return out, true
	case *types.Struct:
		a := v.(Agg)
		off := 0
		var out []*Term
		for i := 0; i < u.NumFields(); i++ {
			ft := u.Field(i).Type()
			n := m.ncells(ft)
			var fv value
			if isAggType(ft) {
				fv = Agg(a[off : off+n])
			} else {
				fv = a[off]
			}
			off += n
			bs, ok := m.binEncode(ft, fv, big, false)
			if !ok {
				return nil, false
			}
			if u.Field(i).Name() == "_" {
				for k := range bs {
					bs[k] = tb.Const(8, 0)
				}
			}
			out = append(out, bs...)
		}
		return out, true
	case *types.Slice:
		if !top {
			return nil, false
		}
		s := v.(Slice)
		var out []*Term
		for i := 0; i < s.len; i++ {
			bs, ok := m.binEncode(u.Elem(), m.loadT(s.obj, s.off+i*s.esz, u.Elem()), big, false)
			if !ok {
				return nil, false
			}
			out = append(out, bs...)
		}
		return out, true
	}
	return nil, false
}

// binDecode stores bytes into the value pointed to by v (pointer or slice).
func (m *Machine) binDecode(t types.Type, v value, bs []*Term, big bool) {
	switch u := t.Underlying().(type) {
	case *types.Pointer:
		p := v.(Ptr)
		cells := m.binDecodeCells(u.Elem(), &bs, big)
		for i, c := range cells {
			m.write(p.obj, p.idx+i, c)
		}
	case *types.Slice:
		s := v.(Slice)
		for i := 0; i < s.len; i++ {
			cells := m.binDecodeCells(u.Elem(), &bs, big)
			for k, c := range cells {
				m.write(s.obj, s.off+i*s.esz+k, c)
			}
		}
	default:
		abortf("binary.Read into %s", t)
	}
}

func (m *Machine) binDecodeCells(t types.Type, bs *[]*Term, big bool) []value {
	tb := m.tb
	switch u := t.Underlying().(type) {
	case *types.Basic:
		if w, _, ok := intInfo(u); ok {
			n := int(w) / 8
			x := tb.Const(w, 0)
			for k := 0; k < n; k++ {
				var b *Term
				if big {
					b = (*bs)[n-1-k]
				} else {
					b = (*bs)[k]
				}
				x = tb.BOr(x, tb.Shl(tb.Zext(b, w), tb.Const(w, uint64(8*k))))
			}
			*bs = (*bs)[n:]
			return []value{x}
		}
		if u.Kind() == types.Bool {
			b := (*bs)[0]
			*bs = (*bs)[1:]
			return []value{tb.Not(tb.Eq(b, tb.Const(8, 0)))}
		}
	case *types.Array:
		var out []value
		for i := 0; i < int(u.Len()); i++ {
			out = append(out, m.binDecodeCells(u.Elem(), bs, big)...)
		}
		return out
	case *types.Struct:
		var out []value
		for i := 0; i < u.NumFields(); i++ {
			cells := m.binDecodeCells(u.Field(i).Type(), bs, big)
			if u.Field(i).Name() == "_" {
				z := make([]value, len(cells))
				m.zeroCells(u.Field(i).Type(), z)
				cells = z
			}
			out = append(out, cells...)
		}
		return out
	}
	abortf("binary.Read of %s", t)
	return nil
}
