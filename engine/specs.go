package main

// Harness catalogue: which harness serves which property, with the enumerated
// parameter values per tier (the *bounds* of each claim).

type HarnessSpec struct {
	Name     string
	Pkg      string
	Property string
	Quick    map[string][]int
	Thorough map[string][]int
	// engine configuration
	ConcParams  map[string][]int
	ConcResults map[string][]int
	Witness     int    // witnesses per work item to validate natively
	Note        string // what the harness decides (goes to evidence)
	Exhaustive  bool   // ranges over a complete finite domain
	ExpectFail  bool   // vacuity twin: must come back violated
}

func (s *HarnessSpec) apply(c *Config) {
	c.ConcretizeParams = map[string][]int{}
	c.ConcretizeResults = map[string][]int{}
	for k, v := range defaultConcParams {
		c.ConcretizeParams[k] = v
	}
	for k, v := range s.ConcParams {
		c.ConcretizeParams[k] = v
	}
	for k, v := range s.ConcResults {
		c.ConcretizeResults[k] = v
	}
}

const triePkg = "github.com/openacid/slim/trie"

// node ids are kept concrete during a descent (cost only, not meaning)
var defaultConcParams = map[string][]int{
	"(*" + triePkg + ".SlimTrie).getNode":      {1},
	"(*" + triePkg + ".SlimTrie).getLeaf":      {1},
	"(*" + triePkg + ".SlimTrie).getLeafIndex": {1},
	"(*" + triePkg + ".SlimTrie).getIthLeaf":   {1},
	"(*" + triePkg + ".SlimTrie).leftMost":     {1},
	"(*" + triePkg + ".SlimTrie).rightMost":    {1},
}

func rng(lo, hi int) []int {
	var r []int
	for i := lo; i <= hi; i++ {
		r = append(r, i)
	}
	return r
}

func allSpecs() []*HarnessSpec {
	return []*HarnessSpec{
		// ---- C15 ----
		{Name: "k_enc_int", Pkg: "encode", Property: "C15", Exhaustive: true, Witness: 1,
			Quick:    map[string][]int{"enc": rng(0, 7), "junk": {0, 1, 2}},
			Thorough: map[string][]int{"enc": rng(0, 7), "junk": rng(0, 4)},
			Note:     "integer encoders: LE layout, round trip, four sizes agree; value symbolic over the full machine width"},
		{Name: "k_enc_str", Pkg: "encode", Property: "C15", Witness: 1,
			Quick:    map[string][]int{"len": append(rng(0, 17), 255, 256, 257, 4095, 4096), "junk": {0, 2}},
			Thorough: map[string][]int{"len": append(rng(0, 300), 1024, 4095, 4096, 32767, 32768, 65534, 65535), "junk": {0, 1, 2}},
			Note:     "String16: BE length header, round trip, sizes; content symbolic, length enumerated"},
		{Name: "k_enc_bytes", Pkg: "encode", Property: "C15", Witness: 1,
			Quick:    map[string][]int{"size": rng(0, 8), "junk": {0, 2}, "dummy": {0, 1}},
			Thorough: map[string][]int{"size": rng(0, 33), "junk": {0, 1, 2}, "dummy": {0, 1}},
			Note:     "Bytes{k}, Dummy: sizes and round trip"},
		// ---- C08 kernel ----
		{Name: "k_encstep", Pkg: "trie", Property: "C08", Exhaustive: true, Witness: 1,
			Quick:    map[string][]int{"limit": {0, 1}},
			Thorough: map[string][]int{"limit": {0, 1}},
			Note:     "decStep(encStep(s)) == s for every non-negative multiple of 4"},
	}
}
