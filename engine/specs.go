package main

// Harness catalogue: which harness serves which property, with the enumerated
// parameter values per tier (the *bounds* of each claim).

type HarnessSpec struct {
	Name     string
	Pkg      string
	Property string
	Quick    []Grid
	Thorough []Grid
	Deep     []Grid // grids that have not run to completion on the unchanged tree inside the budgets: not registered (tier "deep")
	// engine configuration
	ConcParams  map[string][]int
	ConcResults map[string][]int
	Witness     int    // witnesses per work item to validate natively
	Note        string // what the harness decides (goes to evidence)
	Exhaustive  bool   // ranges over a complete finite domain
	ExpectFail  bool   // vacuity twin: must come back violated
	NoSummaries bool   // run the real code of summarised functions (lemma harnesses)
}

func (s *HarnessSpec) apply(c *Config) {
	c.ConcretizeParams = map[string][]int{}
	c.ConcretizeResults = map[string][]int{}
	for k, v := range defaultConcParams {
		c.ConcretizeParams[k] = v
	}
	for k, v := range s.ConcParams {
		c.ConcretizeParams[k] = v
	}
	for k, v := range s.ConcResults {
		c.ConcretizeResults[k] = v
	}
	c.ConcShrParams = map[string][][2]int{
		// rank over a symbolic bit position: fork on the word (i>>6), keep the bit symbolic
		"github.com/openacid/low/bitmap.Rank128": {{2, 6}},
		"github.com/openacid/low/bitmap.Rank64":  {{2, 6}},
	}
	c.ConcShr = map[string][][2]int{
		// the builder only uses the first differing *nibble* (wordStart &^ 3): fork on min>>2
		"(*github.com/openacid/low/sigbits.SigBits).CountPrefixes": {{0, 2}},
	}
}

const triePkg = "github.com/openacid/slim/trie"

// node ids are kept concrete during a descent (cost only, not meaning)
var defaultConcParams = map[string][]int{
	"(*" + triePkg + ".SlimTrie).getNode":      {1},
	"(*" + triePkg + ".SlimTrie).getLeaf":      {1},
	"(*" + triePkg + ".SlimTrie).getLeafIndex": {1},
	"(*" + triePkg + ".SlimTrie).getIthLeaf":   {1},
	"(*" + triePkg + ".SlimTrie).leftMost":     {1},
	"(*" + triePkg + ".SlimTrie).rightMost":    {1},
}

type Grid map[string][]int

func (s *HarnessSpec) grids(tier string) []Grid {
	// the deeper tiers contain the quick grids (every strengthening made after a missed seeded
	// change went into the quick grids) plus their own
	if tier == "deep" && s.Deep != nil {
		return append(append([]Grid{}, s.Quick...), s.Deep...)
	}
	if (tier == "thorough" || tier == "deep") && s.Thorough != nil {
		return append(append([]Grid{}, s.Quick...), s.Thorough...)
	}
	return s.Quick
}

// thoroughValidated: properties whose thorough grids ran to completion, clean, on the unchanged
// tree (25-minute cap, 8 workers, this machine).  For the others the thorough tier is the quick
// grids (all of which run clean on every check) and the deeper grids are kept, unregistered,
// as tier "deep": a bound is registered only after it has run clean.
var thoroughValidated = map[string]bool{
	"C07": true, "C08": true, "C13": true, "C15": true, "C16": true, "C17": true, "C19": true, "C20": true,
	"*": true, "DBG": true, "DBG2": true,
}

// thoroughL3Validated: properties for which only the L3 harness (l3_api: concrete key sets --
// all skeletons, every sweep size, the 30000-key set --, more option cases and run patterns) of
// the thorough grids was run to completion, clean (2-3 minutes each with 8 workers); their L2
// thorough grids stay in tier deep.
var thoroughL3Validated = map[string]bool{"C01": true, "C02": true, "C09": true, "C18": true}

func allSpecs() []*HarnessSpec {
	ss := allSpecsRaw()
	for _, s := range ss {
		if !thoroughValidated[s.Property] && s.Thorough != nil {
			if thoroughL3Validated[s.Property] && s.Name == "l3_api" {
				continue
			}
			s.Deep, s.Thorough = s.Thorough, nil
		}
	}
	return ss
}

// items enumerates the parameter tuples of all grids of a tier.
func (s *HarnessSpec) tuples(tier string) []map[string]int {
	var out []map[string]int
	for _, g := range s.grids(tier) {
		out = append(out, cartesian(g)...)
	}
	return out
}

func step(lo, hi, st int) []int {
	var r []int
	for i := lo; i <= hi; i += st {
		r = append(r, i)
	}
	return r
}

func rng(lo, hi int) []int {
	var r []int
	for i := lo; i <= hi; i++ {
		r = append(r, i)
	}
	return r
}

func allSpecsRaw() []*HarnessSpec {
	return append(apiSpecs(), []*HarnessSpec{
		// ---- C15 ----
		{Name: "k_enc_int", Pkg: "encode", Property: "C15", Exhaustive: true, Witness: 1,
			Quick:    []Grid{{"enc": rng(0, 7), "junk": {0, 1, 2}}},
			Thorough: []Grid{{"enc": rng(0, 7), "junk": rng(0, 4)}},
			Note:     "integer encoders: LE layout, round trip, four sizes agree; value symbolic over the full machine width"},
		{Name: "k_enc_str", Pkg: "encode", Property: "C15", Witness: 1,
			Quick:    []Grid{{"len": append(rng(0, 17), 255, 256, 257, 4095, 4096), "junk": {0, 2}}},
			Thorough: []Grid{{"len": append(rng(0, 300), 1024, 4095, 4096, 32767, 32768, 65534, 65535), "junk": {0, 1, 2}}},
			Note:     "String16: BE length header, round trip, sizes; content symbolic, length enumerated"},
		{Name: "k_enc_bytes", Pkg: "encode", Property: "C15", Witness: 1,
			Quick:    []Grid{{"size": rng(0, 8), "junk": {0, 2}, "dummy": {0, 1}}},
			Thorough: []Grid{{"size": rng(0, 33), "junk": {0, 1, 2}, "dummy": {0, 1}}},
			Note:     "Bytes{k}, Dummy: sizes and round trip"},
		{Name: "dbg_funcs", Pkg: "trie", Property: "DBG", Witness: 1, Quick: []Grid{{"x": {0}}}},
		{Name: "dbg_build", Pkg: "trie", Property: "DBG2", Witness: 2,
			Quick: []Grid{{"opt": {16}, "lq": {2}}}},
		// ---- verified summary (runs with every property that executes the builder) ----
		{Name: "k_path_summary", Pkg: "trie", Property: "*", NoSummaries: true, Exhaustive: true, Witness: 1,
			Quick: []Grid{{"size": {17, 257}}},
			Note:  "licenses the engine's summary of bmtree.PathToIndex: real PathToIndex(17|257, path) = 0 for the empty path and 1+v for a full path with bits v (all v), executed with the summary switched off"},
		// ---- L1 kernel lemmas (synthetic state, symbolic bitmap words) ----
		{Name: "k_shortnode", Pkg: "trie", Property: "C01", Witness: 1,
			Quick:    []Grid{{"s": {1, 2, 3, 4, 5, 7, 8, 10}, "k": {0, 1, 5, 6, 7, 8, 9, 11, 12, 15, 20, 21, 31, 41, 63}, "spare": {0, 1}}},
			Thorough: []Grid{{"s": rng(1, 10), "k": rng(0, 127), "spare": {0, 1}}},
			Note:     "A11: short (table-compressed) inner nodes at every listed alignment incl. word-straddling ones: getIthInner/getIthInnerFrom/getNode read exactly the node's bits of three symbolic Inners words and translate them through a symbolic ShortTable"},
		{Name: "k_shortnode", Pkg: "trie", Property: "C18", Witness: 1,
			Quick: []Grid{{"s": {2, 3, 7}, "k": {0, 9, 20, 21, 31}, "spare": {0}}},
			Note:  "A11 (getIthInnerFrom is what initLevels uses)"},
		{Name: "k_shortnode", Pkg: "trie", Property: "C10", Witness: 1,
			Quick: []Grid{{"s": {1, 2, 4, 8}, "k": {0, 7, 15, 31, 63}, "spare": {0, 1}}},
			Note:  "A11 (every lookup goes through getNode; nodes ending exactly on the last word boundary)"},
		{Name: "k_fixleaf", Pkg: "trie", Property: "C14", Witness: 1,
			Quick: []Grid{{"n": {1, 63, 64, 65, 128}}},
			Note:  "typed getters index Leaves.Bytes directly while Get goes through the rebuilt presence bitmap of 0.5.10 streams"},
		{Name: "k_enc_type", Pkg: "encode", Property: "C15", Witness: 1,
			Quick:    []Grid{{"type": rng(0, 6), "big": {0, 1}, "junk": {0, 2}, "both": {0, 1}}},
			Thorough: []Grid{{"type": rng(0, 6), "big": {0, 1}, "junk": {0, 1, 2, 3}, "both": {0, 1}}},
			Note:     "TypeEncoder wrapper logic under the encoding/binary layout model: four sizes agree with len(Encode), round trip with trailing bytes, scalars/arrays/structs with alignment padding, both byte orders"},
		{Name: "k_innerbm", Pkg: "trie", Property: "C19", Witness: 1,
			Quick:    []Grid{{"size": {17}, "from": rng(0, 175)}, {"size": {257}, "from": {0, 1, 63, 64, 65, 127, 128, 190, 191}}},
			Thorough: []Grid{{"size": {17}, "from": rng(0, 175)}, {"size": {257}, "from": rng(0, 191)}},
			Note:     "A12: getInnerBM returns exactly the node's bits of symbolic Inners words for a plain 17-bit / 257-bit node at every alignment"},
		{Name: "k_vlen", Pkg: "trie", Property: "C01", Witness: 1,
			Quick:    []Grid{{"n": {1}, "lens": rng(0, 3)}, {"n": {2}, "lens": rng(0, 15)}, {"n": {3}, "lens": rng(0, 63)}, {"n": {4}, "lens": step(0, 255, 1)}},
			Thorough: []Grid{{"n": {1}, "lens": rng(0, 3)}, {"n": {2}, "lens": rng(0, 15)}, {"n": {3}, "lens": rng(0, 63)}, {"n": {4}, "lens": rng(0, 255)}, {"n": {5}, "lens": rng(0, 1023)}},
			Note:     "A16: newVLenArray/VLenArray.get for every combination of element lengths 0..3 (up to 4 elements) with symbolic contents"},
		{Name: "k_vlen", Pkg: "trie", Property: "C02", Witness: 1,
			Quick: []Grid{{"n": {3}, "lens": rng(0, 63)}, {"n": {4}, "lens": step(0, 255, 1)}},
			Note:  "A16 (RangeGet reads leaf values through VLenArray.get)"},
		{Name: "k_vlen", Pkg: "trie", Property: "C10", Witness: 1,
			Quick: []Grid{{"n": {3}, "lens": rng(0, 63)}, {"n": {4}, "lens": step(0, 255, 1)}},
			Note:  "A16 (a hit carries a supplied value: every lookup reads it through VLenArray.get)"},
		{Name: "k_vlen", Pkg: "trie", Property: "C08", Witness: 1,
			Quick: []Grid{{"n": {3}, "lens": rng(0, 63)}},
			Note:  "A16 (an accepted value list is stored so that every value can be read back)"},
		{Name: "k_vlen", Pkg: "trie", Property: "C03", Witness: 1,
			Quick: []Grid{{"n": {3}, "lens": rng(0, 63)}},
			Note:  "A16"},
		{Name: "k_vlen", Pkg: "trie", Property: "C09", Witness: 1,
			Quick: []Grid{{"n": {3}, "lens": rng(0, 63)}},
			Note:  "A16"},
		{Name: "k_vlen", Pkg: "trie", Property: "C04", Witness: 1,
			Quick: []Grid{{"n": {3}, "lens": rng(0, 63)}},
			Note:  "A16 (scans read values through VLenArray.get)"},
		{Name: "k_fixleaf", Pkg: "trie", Property: "C06", Witness: 1,
			Quick:    []Grid{{"n": {0, 1, 2, 63, 64, 65, 127, 128, 129, 192}}},
			Thorough: []Grid{{"n": rng(0, 200)}},
			Note:     "before000512FixLeafSize for leaf counts around 64-bit word boundaries: get(i) of the rebuilt array returns the i-th bare value for a symbolic i"},
		// ---- C08 kernel ----
		{Name: "k_encstep", Pkg: "trie", Property: "C08", Exhaustive: true, Witness: 1,
			Quick: []Grid{{"x": {0}}},
			Note:  "decStep(encStep(s)) == s for every step the builder accepts (s>>2 <= maxStep), s symbolic over int32"},
		{Name: "l2_order", Pkg: "trie", Property: "C08", Witness: 1,
			Quick: []Grid{{"n": {2}, "L": {2}, "lens": rng(0, 8), "opt": {16, 9}},
				{"n": {3}, "L": {1}, "lens": rng(0, 7), "opt": {16}}},
			Thorough: []Grid{{"n": {2}, "L": {3}, "lens": rng(0, 15), "opt": optsDistinct},
				{"n": {3}, "L": {2}, "lens": rng(0, 26), "opt": {16, 9, 0}},
				{"n": {4}, "L": {1}, "lens": rng(0, 14), "opt": {16}}}, // lens=15 (four 1-byte keys) did not finish in 900 s
			Note: "symbolic keys WITHOUT the ascending assumption: rejected with ErrKeyOutOfOrder and a nil trie iff some neighbours are not strictly ascending; accepted lists answer RangeGet for every key"},
		{Name: "l3_order_deep", Pkg: "trie", Property: "C08", Witness: 1,
			Quick:    []Grid{{"pos": {0, 31, 62}}},
			Thorough: []Grid{{"pos": rng(0, 62)}},
			Note:     "a symbolic pair of neighbours at position i of a 64-key list (equal / swapped / prefix / bytes >= 0x80 are all models of the pair)"},
		{Name: "l3_api", Pkg: "trie", Property: "C08", Witness: 1,
			Quick: []Grid{{"skel": append([]int{0, 1, 2, 7, 11}, step(100, 150, 5)...), "opt": {16, 9, 0}, "enc": {1}, "runs": {0}, "check": {1}, "lq": {0}},
				// a returned trie keeps satisfying the guarantees while later builds run / after earlier ones
				{"skel": {0, 2, 3, 105}, "opt": {16, 2}, "enc": {1}, "runs": {0}, "check": {1}, "lq": {0}, "other": {1, 2}},
				{"skel": {12, 13, 14, 19, 23, 24, 25}, "opt": {16, 9, 0}, "enc": {1}, "runs": {0}, "check": {1}, "lq": {0}},
				{"skel": {0, 2, 105}, "opt": {16}, "enc": {1}, "runs": {0}, "check": {1}, "lq": {0}, "pre": {150}},
				// accepted values: symbolic String16 values of symbolic lengths, and the empty-or-two-byte encoder
				{"skel": {20, 21, 22}, "opt": {16, 0}, "enc": {2}, "runs": {0}, "check": {1}, "lq": {0}, "symv": {1}, "vl": {2}},
				{"skel": {20, 21, 22}, "opt": {16, 0}, "enc": {8}, "runs": {0}, "check": {1}, "lq": {0}, "symv": {1}}},
			Thorough: []Grid{{"skel": append([]int{0, 1, 2, 3, 4, 5, 6, 7, 8, 9, 10, 11}, step(100, 150, 1)...), "opt": optsDistinct, "enc": {1}, "runs": {0, 2}, "check": {1}, "lq": {0}}},
			Note:     "accepted => correct: every key of an accepted skeleton key set is found (the C01 block on shapes with 257-bit nodes, short-node tables and their coincidences)"},
		{Name: "l3_longrun", Pkg: "trie", Property: "C08", Witness: 1,
			Quick: []Grid{{"run": {127, 128, 2047, 16384, 32767, 32768, 32769}, "opt": {16, 2}},
				{"run": {2047, 16384, 32767, 32768, 40000, 65535, 65536}, "opt": {16, 4}, "fan": {16}}},
			Thorough: []Grid{{"run": {0, 1, 126, 127, 128, 129, 2047, 2048, 16383, 16384, 32766, 32767, 32768, 32769, 40000}, "opt": {16, 0, 2, 4, 9}},
				{"run": {0, 1, 127, 2047, 16384, 32767, 32768, 40000, 65534, 65535, 65536, 70000}, "opt": {16, 0, 2, 4, 9}, "fan": {11, 16}}},
			Note: "shared runs up to and beyond 65535 half-bytes with symbolic tails: the builder refuses with ErrStepTooLong (only beyond the documented 16 KiB) or every key is found"},
	}...)
}

// ---------- whole-API specs (l2_api / l3_api) ----------

// option cases: 16 = Opt{} (defaults), 17 = only Complete set; otherwise bit0 dedup,
// bit1 InnerPrefix, bit2 LeafPrefix, bit3 Complete.
var (
	optsAll      = append(rng(0, 15), 16, 17)
	optsDistinct = []int{16, 0, 1, 2, 3, 4, 5, 8, 9, 17} // the 8 distinct normal forms + nil-defaults + Complete-only
	optsFew      = []int{16, 9, 2, 5}
	optsComplete = []int{8, 9, 6, 7, 17}
	optsComplFew = []int{9, 6}
)

func pow(b, e int) int {
	r := 1
	for i := 0; i < e; i++ {
		r *= b
	}
	return r
}

// l2Grids builds the (n, L, lens) grids shared by the L2 harnesses.
func l2Grids(tier string, check int, opts, optsSmall, encs []int, lqs []int) []Grid {
	var gs []Grid
	add := func(n, L int, o, e []int) {
		gs = append(gs, Grid{"n": {n}, "L": {L}, "lens": rng(0, pow(L+1, n)-1), "opt": o, "enc": e, "check": {check}, "lq": lqs, "cv": {-1}})
	}
	queryCheck := len(lqs) > 1
	addq := func(n, L int, o, e, lq []int) {
		gs = append(gs, Grid{"n": {n}, "L": {L}, "lens": rng(0, pow(L+1, n)-1), "opt": o, "enc": e, "check": {check}, "lq": lq, "cv": {-1}})
	}
	switch {
	case tier == "quick" && queryCheck:
		add(0, 2, opts, encs)
		add(1, 2, opts, encs)
		addq(2, 2, optsSmall, encs[:1], []int{1, 3})
		if len(encs) > 1 {
			addq(2, 2, optsSmall[:1], encs[1:], []int{2})
		}
		addq(3, 1, optsSmall[:2], encs[:1], []int{2})
	case tier == "quick":
		add(0, 2, opts, encs)
		add(1, 2, opts, encs)
		add(2, 2, opts, encs)
		add(3, 1, optsSmall, encs[:1])
	default:
		add(0, 3, opts, encs)
		add(1, 3, opts, encs)
		add(2, 3, opts, encs)
		add(3, 2, opts, encs)
		add(4, 1, optsSmall, encs[:1])
	}
	return gs
}

func l3Grid(check int, skels, opts, encs, runs, lqs []int) Grid {
	return Grid{"skel": skels, "opt": opts, "enc": encs, "runs": runs, "check": {check}, "lq": lqs}
}

func apiSpecs() []*HarnessSpec {
	var out []*HarnessSpec
	type pd struct {
		prop        string
		check       int
		opts, small []int
		encs        []int
		lqQ, lqT    []int
		note        string
	}
	for _, p := range []pd{
		{"C01", 1, optsDistinct, optsFew, []int{1, 0, 2}, []int{0}, []int{0}, "Get/GetID on every retained key returns its own value (all option cases, nil/U16/String16 values)"},
		{"C02", 2, optsDistinct, optsFew, []int{1, 2}, []int{0}, []int{0}, "RangeGet on every indexed key (retained or de-duplicated) returns the value supplied for it"},
		{"C03", 3, optsComplete, optsComplFew, []int{1, 0, 2}, []int{0, 1, 2, 3}, []int{0, 1, 2, 3, 4}, "Complete tries answer Get/GetID/RangeGet/Search exactly for an arbitrary symbolic query"},
		{"C09", 9, optsDistinct, optsFew, []int{1, 2}, []int{0}, []int{0}, "Search on a retained key returns its exact neighbours in every mode"},
		{"C10", 10, optsDistinct, optsFew, []int{1, 0, 2}, []int{0, 1, 2, 3}, []int{0, 1, 2, 3, 4}, "all lookups total and mutually consistent for an arbitrary symbolic query; hits carry supplied values"},
		{"C14", 14, optsDistinct, optsFew, []int{3, 4, 5, 6}, []int{0, 1, 2}, []int{0, 1, 2, 3}, "GetI8/16/32/64 agree with Get (flag and number), values over the full integer range"},
		{"C18", 18, optsDistinct, optsFew, []int{1, 0, 2}, []int{0}, []int{0}, "Stat: KeyCnt = number of retained keys, level totals consistent"},
	} {
		p := p
		q2, t2 := l2Grids("quick", p.check, p.opts, p.small, p.encs, p.lqQ), l2Grids("thorough", p.check, p.opts, p.small, p.encs, p.lqT)
		if p.check == 1 || p.check == 2 || p.check == 9 {
			// three keys of length <= 2 in four shapes (a key and two longer keys sharing a first byte, ...)
			q2 = append(q2, Grid{"n": {3}, "L": {2}, "lens": {21, 25}, "opt": {3, 1}, "enc": {1}, "check": {p.check}, "lq": {0}, "cv": {-1}})
		}
		if p.check == 1 {
			// variable-width values of lengths 0..2 on three keys (width sums that coincide)
			q2 = append(q2, Grid{"n": {3}, "L": {1}, "lens": {7}, "opt": {16}, "enc": {2}, "check": {p.check}, "lq": {0}, "cv": {-1}, "vl": {2}})
			t2 = append(t2, Grid{"n": {3}, "L": {1}, "lens": rng(0, 7), "opt": p.small, "enc": {2}, "check": {p.check}, "lq": {0}, "cv": {-1}, "vl": {2, 3}})
		}
		if p.check == 1 || p.check == 10 {
			// values behind a reflection-driven *TypeEncoder over a struct
			lq := []int{0}
			if p.check == 10 {
				lq = []int{1}
			}
			q2 = append(q2, Grid{"n": {1, 2}, "L": {1}, "lens": rng(0, 3), "opt": {16, 9, 0}, "enc": {7}, "check": {p.check}, "lq": lq, "cv": {-1}})
			t2 = append(t2, Grid{"n": {1, 2}, "L": {2}, "lens": rng(0, 8), "opt": p.small, "enc": {7}, "check": {p.check}, "lq": lq, "cv": {-1}})
		}
		if p.check == 1 || p.check == 2 || p.check == 3 || p.check == 9 || p.check == 10 || p.check == 18 {
			// application encoder whose encodings are empty or of one fixed width: fixed-size leaf
			// array with absent elements (presence bitmap + rank)
			lq := []int{0}
			if len(p.lqQ) > 1 {
				lq = []int{1, 2}
			}
			q2 = append(q2, Grid{"n": {2}, "L": {1}, "lens": rng(0, 3), "opt": p.small[:2], "enc": {8}, "check": {p.check}, "lq": lq, "cv": {-1}})
			if len(p.lqQ) == 1 {
				// (with a symbolic query on top, three keys x 2^3 presence patterns do not finish in the item budget)
				q2 = append(q2, Grid{"n": {3}, "L": {1}, "lens": {7}, "opt": p.small[:1], "enc": {8}, "check": {p.check}, "lq": lq[:1], "cv": {-1}})
			}
			t2 = append(t2, Grid{"n": {2}, "L": {2}, "lens": rng(0, 8), "opt": p.small, "enc": {8}, "check": {p.check}, "lq": lq, "cv": {-1}},
				Grid{"n": {3}, "L": {1}, "lens": rng(0, 7), "opt": p.small[:1], "enc": {8}, "check": {p.check}, "lq": lq[:1], "cv": {-1}})
		}
		if len(p.lqQ) > 1 {
			// symbolic keys; the query is a key + one symbolic byte + a concrete tail of 33 / 70 bytes
			q2 = append(q2, Grid{"n": {2}, "L": {1}, "lens": {3}, "opt": p.small[:2], "enc": p.encs[:1], "check": {p.check}, "lq": {1}, "cv": {-1}, "qkey": {-1}, "qtail": {33, 70}})
			t2 = append(t2, Grid{"n": {2}, "L": {2}, "lens": rng(0, 8), "opt": p.small, "enc": p.encs[:1], "check": {p.check}, "lq": {0, 1}, "cv": {-1}, "qkey": {-1}, "qtail": {31, 32, 33, 70}})
		}
		if p.check == 14 {
			// three keys, the wider integer encoders, every indexed key also used as the query
			q2 = append(q2, Grid{"n": {3}, "L": {1}, "lens": {7}, "opt": {16, 0}, "enc": {4, 5, 6}, "check": {14}, "lq": {1}, "cv": {-1}, "allkeys": {1}})
		}
		out = append(out, &HarnessSpec{Name: "l2_api", Pkg: "trie", Property: p.prop, Witness: 1,
			Quick:    q2,
			Thorough: t2,
			Note:     "L2 (fully symbolic key sets): " + p.note})
		skQ, skT := []int{0, 1, 2, 3, 4, 5, 7, 11}, []int{0, 1, 2, 3, 4, 5, 6, 7, 8, 9, 10, 11}
		enc3 := p.encs[:1]
		lq3Q, lq3T := p.lqQ, p.lqT
		if len(lq3Q) > 1 {
			lq3Q = []int{1, 3}
			lq3T = []int{0, 1, 2, 3, 4, 5}
		}
		// sweep family: growing prefixes of a fixed pseudo-random key list (shape/alignment diversity)
		aligned := append(append(rng(300, 306), rng(310, 315)...), rng(330, 333)...)
		swQ, swT := append(step(100, 150, 1), aligned...), append(step(100, 150, 1), aligned...)
		lqS := []int{0}
		if len(p.lqQ) > 1 {
			// (with a symbolic first query byte the wide one-level fans 331-333 fork into hundreds of
			// branches of minutes each: they are used with concrete queries only, see allkeys)
			swQ = append(step(100, 150, 5), aligned[:len(aligned)-3]...)
			lqS = []int{1}
		}
		q3 := []Grid{l3Grid(p.check, skQ, p.small[:2], enc3, []int{0, 2}, lq3Q), l3Grid(p.check, swQ, p.small[:2], enc3, []int{0, 3}, lqS)}
		t3 := []Grid{l3Grid(p.check, skT, p.opts, p.encs, []int{0, 1, 2, 3}, lq3T), l3Grid(p.check, swT, p.small, enc3, []int{0, 1, 3}, append(lqS, 2))}
		if p.check != 14 && p.check != 18 {
			// tiny concrete key sets with symbolic String16 values of symbolic lengths 0..vl
			// (variable-width leaf packing: width sums that coincide, empty values, de-duplication)
			so := []int{16, 0}
			if p.check == 3 {
				so = []int{9, 8}
			}
			q3 = append(q3, Grid{"skel": {20, 21, 22}, "opt": so, "enc": {2}, "runs": {0}, "check": {p.check}, "lq": lqS, "symv": {1}, "vl": {2}},
				Grid{"skel": {20}, "opt": so[:1], "enc": {2}, "runs": {0}, "check": {p.check}, "lq": lqS, "symv": {1}, "vl": {4}})
			t3 = append(t3, Grid{"skel": {20, 21, 22}, "opt": p.small, "enc": {2}, "runs": {0}, "check": {p.check}, "lq": lqS, "symv": {1}, "vl": {2, 3}},
				Grid{"skel": {20}, "opt": so, "enc": {2}, "runs": {0}, "check": {p.check}, "lq": lqS, "symv": {1}, "vl": {4, 5}})
		}
		if p.check != 14 {
			// the empty-or-fixed-width application encoder on skeletons (every third value absent)
			q3 = append(q3, l3Grid(p.check, []int{0, 1, 2, 5, 101, 110, 120, 303}, p.small[:2], []int{8}, []int{0, 2}, lqS),
				Grid{"skel": {20, 21, 22}, "opt": p.small[:2], "enc": {8}, "runs": {0}, "check": {p.check}, "lq": lqS, "symv": {1}})
			t3 = append(t3, l3Grid(p.check, swT, p.small, []int{8}, []int{0, 1, 3}, lqS),
				Grid{"skel": {20, 21, 22}, "opt": p.opts, "enc": {8}, "runs": {0}, "check": {p.check}, "lq": lqS, "symv": {1}})
		}
		// length-diverse skeletons (12, 13: key lengths on and around 32/64/128/256 bytes) and a key
		// that is also an inner node with all 16 branches (14)
		q3 = append(q3, l3Grid(p.check, []int{12, 13, 14}, p.small[:2], enc3, []int{0, 2}, lq3Q))
		// 12 x 12 two-byte keys (nested 257-bit nodes; 25: with labels up to 0xff); runs=112: the first twelve keys share one value
		q3 = append(q3, l3Grid(p.check, []int{19, 25}, p.small[:2], enc3, []int{0, 112, 12}, lqS))
		// prefix keys of 9..63 bytes followed by a separator byte below 0x10 (pairs, triples)
		q3 = append(q3, l3Grid(p.check, []int{23, 24, 26}, p.small[:2], enc3, []int{0, 2}, lqS))
		// a root with all 256 byte branches (17), and the empty key as well (18)
		if len(p.lqQ) > 1 {
			// (a symbolic first query byte forks into all 256 branches: one option case, runs of 3)
			q3 = append(q3, l3Grid(p.check, []int{17, 18}, p.small[:1], enc3, []int{3}, lqS))
		} else {
			q3 = append(q3, l3Grid(p.check, []int{17, 18}, p.small[:2], enc3, []int{0, 3}, lqS))
		}
		// scale: 6000 pseudo-random 8-byte keys (bigger short-node tables, thousands of nodes per level)
		q3 = append(q3, l3Grid(p.check, []int{16}, p.small[:2], enc3, []int{0}, lqS))
		t3 = append(t3, l3Grid(p.check, []int{15, 16}, p.small, enc3, []int{0, 3}, lqS))
		if len(p.lqQ) > 1 {
			// queries much longer than the keys: an indexed key + lq symbolic bytes + a concrete tail
			lt := l3Grid(p.check, []int{0, 1, 12, 13}, p.small[:2], enc3, []int{0}, []int{0, 1})
			lt["qkey"], lt["qtail"] = []int{-1}, []int{0, 40}
			q3 = append(q3, lt)
			ltT := l3Grid(p.check, []int{0, 1, 2, 3, 12, 13, 14, 101, 110}, p.small, enc3, []int{0, 2}, []int{0, 1, 2})
			ltT["qkey"], ltT["qtail"] = []int{-1}, []int{0, 31, 32, 33, 40, 70}
			t3 = append(t3, ltT)
		}
		if p.check == 14 {
			// every indexed key as the query, all four integer widths: leaf byte counts that are
			// not multiples of 8 (partial last word), 1..355 leaves
			ak := l3Grid(14, append([]int{0, 1, 2, 4, 20, 21, 22, 330, 331, 332, 333}, step(100, 150, 7)...), []int{16, 0}, p.encs, []int{0, 2}, []int{0})
			ak["allkeys"] = []int{1}
			q3 = append(q3, ak)
			akT := l3Grid(14, append(append([]int{0, 1, 2, 3, 4, 5, 6, 7, 20, 21, 22}, step(100, 150, 1)...), aligned...), p.small, p.encs, []int{0, 2, 3}, []int{0})
			akT["allkeys"] = []int{1}
			t3 = append(t3, akT)
		}
		// a second, unrelated trie is built while the first is alive
		og := l3Grid(p.check, []int{0, 2, 105}, p.small[:1], enc3, []int{0}, lqS)
		og["other"] = []int{1, 2}
		q3 = append(q3, og)
		// ... and one is built before it
		pg := l3Grid(p.check, []int{0, 2, 5, 105}, p.small[:1], enc3, []int{0}, lqS)
		pg["pre"] = []int{150}
		q3 = append(q3, pg)
		// ... with partially filled option structs (what a build is given must not leak into later builds)
		pog := l3Grid(p.check, []int{0, 2}, p.small[:2], enc3, []int{0}, lqS)
		pog["pre"], pog["preopt"] = []int{20}, []int{18, 19, 20, 21, 22}
		q3 = append(q3, pog)
		// partially filled option structs as the options of the trie under check
		partial := []int{18, 19, 20, 21, 22}
		if p.check == 3 {
			partial = []int{18, 22} // the Complete ones
		}
		q3 = append(q3, l3Grid(p.check, []int{0, 1, 2}, partial, enc3, []int{0, 2}, lqS))
		out = append(out, &HarnessSpec{Name: "l3_api", Pkg: "trie", Property: p.prop, Witness: 1,
			Quick:    q3,
			Thorough: t3,
			Note:     "L3 (concrete skeleton key sets, symbolic query): " + p.note})
	}
	// ---- C04 scans ----
	scanGrid := func(n, L int, opts, encs, apis, lss, les, stops []int) Grid {
		return Grid{"n": {n}, "L": {L}, "lens": rng(0, pow(L+1, n)-1), "opt": opts, "enc": encs, "check": {4}, "lq": lss, "cv": {-1},
			"api": apis, "le": les, "stop": stops}
	}
	alpha := func(g Grid) Grid { g["alpha"] = []int{1}; return g }
	out = append(out, &HarnessSpec{Name: "l2_api", Pkg: "trie", Property: "C04", Witness: 1,
		Quick: []Grid{
			scanGrid(0, 2, optsComplFew, []int{1, 2, 0}, []int{0, 1, 2}, []int{0, 1}, []int{1}, []int{0}),
			scanGrid(1, 2, optsComplFew, []int{1, 2, 0}, []int{0, 1, 2}, []int{0, 1, 2}, []int{1}, []int{0}),
			alpha(scanGrid(2, 1, optsComplFew[:1], []int{1, 2, 8}, []int{0}, []int{1}, []int{1}, []int{0})),
			alpha(scanGrid(2, 1, optsComplFew[:1], []int{1}, []int{0, 1, 2}, []int{0}, []int{0, 1}, []int{0})), // the empty start / end string
			{"n": {1}, "L": {1}, "lens": {0, 1}, "opt": {9}, "enc": {1}, "check": {4}, "lq": {1}, "cv": {-1}, "api": {0}, "le": {1}, "stop": {0}, "again": {1}},
			{"n": {2}, "L": {1}, "lens": {3}, "opt": {9}, "enc": {1}, "check": {4}, "lq": {1}, "cv": {-1}, "api": {0}, "le": {1}, "stop": {0}, "again": {1}, "alpha": {1}},
		},
		Thorough: []Grid{
			scanGrid(0, 2, optsComplete, []int{1, 2, 0}, []int{0, 1, 2}, []int{0, 1, 2}, []int{0, 1, 2}, []int{0, 1}),
			scanGrid(1, 3, optsComplete, []int{1, 2, 0}, []int{0, 1, 2}, []int{0, 1, 2, 3}, []int{0, 1, 2}, []int{0, 1}),
			alpha(scanGrid(2, 2, optsComplFew, []int{1, 2, 0}, []int{0, 1, 2}, []int{0, 1, 2}, []int{1, 2}, []int{0, 1})),
		},
		Note: "L2: NewIter/ScanFrom/ScanFromTo on Complete tries with symbolic start/end, inclusivities and withValue symbolic; the t-th yield must be the t-th retained key in range with its encoded value; exhaustion persists. n=2 key bytes range over a 6-letter nibble-diverse alphabet (the scan code forks per label bit)"})
	out = append(out, &HarnessSpec{Name: "l3_api", Pkg: "trie", Property: "C04", Witness: 1,
		Quick: []Grid{{"skel": {0, 1, 2, 3}, "opt": {9}, "enc": {1}, "runs": {0, 2}, "check": {4}, "lq": {1, 2}, "api": {0}, "le": {1}, "stop": {0}},
			{"skel": {7}, "opt": {9}, "enc": {1}, "runs": {0, 2}, "check": {4}, "lq": {1}, "api": {0}, "le": {1}, "stop": {0}},                            // (two symbolic start bytes on the 512-bit skeleton: minutes per item, thorough tier)
			{"skel": {100, 102, 104, 106, 108, 310}, "opt": {9}, "enc": {1}, "runs": {0, 3}, "check": {4}, "lq": {1}, "api": {0}, "le": {1}, "stop": {0}}, // larger sweeps / aligned sets: thorough (minutes per item)
			{"skel": {0}, "opt": {9}, "enc": {2}, "runs": {0}, "check": {4}, "lq": {1}, "api": {0, 2}, "le": {2}, "stop": {0}},
			{"skel": {12, 13, 14, 23, 24, 25, 26}, "opt": {9}, "enc": {1}, "runs": {0}, "check": {4}, "lq": {1}, "api": {0}, "le": {1}, "stop": {0}},
			{"skel": {18}, "opt": {9}, "enc": {1}, "runs": {0}, "check": {4}, "lq": {0}, "api": {0}, "le": {1}, "stop": {0}},
			{"skel": {0, 1, 2, 20, 21, 22, 101}, "opt": {9}, "enc": {1}, "runs": {0}, "check": {4}, "lq": {0}, "api": {0, 2}, "le": {0, 1}, "stop": {0}}, // the empty start / end string
			// a second pair of scans after the first iterator was polled past its end
			{"skel": {0, 1, 2, 3, 22}, "opt": {9}, "enc": {1}, "runs": {0}, "check": {4}, "lq": {1}, "api": {0}, "le": {1}, "stop": {0}, "again": {1}},
			// empty-or-fixed-width application encoder: absent leaves inside a fixed-size leaf array
			{"skel": {0, 1, 2, 101, 102}, "opt": {9}, "enc": {8}, "runs": {0, 2}, "check": {4}, "lq": {1}, "api": {0}, "le": {1}, "stop": {0}},
			{"skel": {20, 21, 22}, "opt": {9}, "enc": {8, 2}, "runs": {0}, "check": {4}, "lq": {1}, "api": {0, 2}, "le": {1}, "stop": {0}, "symv": {1}}},
		Thorough: []Grid{{"skel": {0, 1, 2, 3, 4}, "opt": optsComplete, "enc": {1, 2, 0}, "runs": {0, 2}, "check": {4}, "lq": {0, 1, 2, 3}, "api": {0, 1, 2}, "le": {1, 2}, "stop": {0, 2}},
			{"skel": append(step(100, 112, 2), 300, 303, 305, 310, 313), "opt": {9}, "enc": {1, 8}, "runs": {0, 3}, "check": {4}, "lq": {1}, "api": {0}, "le": {1}, "stop": {0}}},
		Note: "L3: scans over skeleton tries (257-bit root, deep caterpillar whose stack outgrows the initial scan stack, prefix keys)"})
	nonComplete := []int{0, 1, 2, 3, 4, 5, 16}
	out = append(out, &HarnessSpec{Name: "l2_api", Pkg: "trie", Property: "C04", Witness: 1,
		Quick: []Grid{{"n": {0}, "L": {2}, "lens": {0}, "opt": nonComplete, "enc": {1}, "check": {41}, "lq": {1}, "cv": {-1}},
			{"n": {1}, "L": {2}, "lens": {0, 1, 2}, "opt": nonComplete, "enc": {1}, "check": {41}, "lq": {1}, "cv": {-1}},
			{"n": {2}, "L": {1}, "lens": rng(0, 3), "opt": nonComplete, "enc": {1}, "check": {41}, "lq": {1}, "cv": {-1}, "alpha": {1}}},
		Thorough: []Grid{{"n": {0}, "L": {2}, "lens": {0}, "opt": nonComplete, "enc": {1, 0}, "check": {41}, "lq": {0, 1, 2}, "cv": {-1}},
			{"n": {1}, "L": {2}, "lens": {0, 1, 2}, "opt": nonComplete, "enc": {1, 0}, "check": {41}, "lq": {0, 1, 2}, "cv": {-1}},
			{"n": {2}, "L": {2}, "lens": rng(0, 8), "opt": nonComplete, "enc": {1, 0}, "check": {41}, "lq": {0, 1, 2}, "cv": {-1}, "alpha": {1}}},
		Note: "refusal clause: on tries that do not store complete keys NewIter must panic or still yield exactly the right sequence"})
	// ---- C13 modes ----
	out = append(out, &HarnessSpec{Name: "l2_api", Pkg: "trie", Property: "C13", Witness: 1,
		Quick: []Grid{{"n": {0, 1}, "L": {2}, "lens": {0, 1, 2}, "opt": {0, 1}, "enc": {1, 0}, "check": {13}, "lq": {0, 1, 2, 3}, "cv": {-1}},
			{"n": {2}, "L": {2}, "lens": rng(0, 8), "opt": {0, 1}, "enc": {1}, "check": {13}, "lq": {1, 3}, "cv": {-1}},
			{"n": {3}, "L": {1}, "lens": rng(0, 7), "opt": {1}, "enc": {1}, "check": {13}, "lq": {2}, "cv": {-1}}},
		Thorough: []Grid{{"n": {0, 1}, "L": {2}, "lens": {0, 1, 2}, "opt": {0, 1}, "enc": {1, 0, 2}, "check": {13}, "lq": {0, 1, 2, 3, 4}, "cv": {-1}},
			{"n": {2}, "L": {2}, "lens": rng(0, 8), "opt": {0, 1}, "enc": {1, 0, 2}, "check": {13}, "lq": {0, 1, 2, 3, 4}, "cv": {-1}},
			{"n": {3}, "L": {2}, "lens": rng(0, 26), "opt": {0, 1}, "enc": {1}, "check": {13}, "lq": {1, 2, 3}, "cv": {-1}}},
		Note: "the four information levels built from one symbolic key/value list; found in a mode storing more => found with the same value in every mode storing less; Complete exact"})
	out = append(out, &HarnessSpec{Name: "l3_api", Pkg: "trie", Property: "C13", Witness: 1,
		Quick: []Grid{{"skel": {0, 1, 2}, "opt": {1}, "enc": {1}, "runs": {0, 2}, "check": {13}, "lq": {1, 3}},
			{"skel": step(100, 150, 5), "opt": {1}, "enc": {1}, "runs": {0, 3}, "check": {13}, "lq": {1}},
			{"skel": {12, 13, 14}, "opt": {1}, "enc": {1}, "runs": {0, 2}, "check": {13}, "lq": {1}},
			{"skel": {17, 18}, "opt": {1}, "enc": {1}, "runs": {3}, "check": {13}, "lq": {1}},
			{"skel": {0, 1, 12, 13}, "opt": {1}, "enc": {1}, "runs": {0}, "check": {13}, "lq": {0, 1}, "qkey": {-1}, "qtail": {0, 40}},
			{"skel": {0, 1, 2, 13}, "opt": {1, 0}, "enc": {1}, "runs": {0}, "check": {13}, "lq": {0, 1}, "qkey": {-1}, "other": {1}},
			{"skel": {19, 23, 24, 25}, "opt": {1}, "enc": {1}, "runs": {0, 2}, "check": {13}, "lq": {1}}},
		Thorough: []Grid{{"skel": {0, 1, 2, 3, 4}, "opt": {0, 1}, "enc": {1}, "runs": {0, 2}, "check": {13}, "lq": {0, 1, 2, 3, 4, 5}}},
		Note:     "L3: same on skeleton key sets"})
	// ---- C19 String ----
	out = append(out, &HarnessSpec{Name: "l2_api", Pkg: "trie", Property: "C19", Witness: 1,
		Quick: []Grid{{"n": {0, 1}, "L": {2}, "lens": {0, 1, 2}, "opt": optsDistinct, "enc": {1, 0}, "check": {19}, "lq": {0}, "cv": {0, 2}},
			{"n": {2}, "L": {1}, "lens": rng(0, 3), "opt": optsFew, "enc": {1}, "check": {19}, "lq": {0}, "cv": {0, 2}, "alpha": {1}}},
		Thorough: []Grid{{"n": {0, 1}, "L": {3}, "lens": {0, 1, 2, 3}, "opt": optsDistinct, "enc": {1, 0, 3}, "check": {19}, "lq": {0}, "cv": {0, 2}},
			{"n": {2}, "L": {2}, "lens": rng(0, 8), "opt": optsDistinct, "enc": {1, 0, 3}, "check": {19}, "lq": {0}, "cv": {0, 2}, "alpha": {1}}},
		Note: "String() on every build path: no panic, one line per node, leaf lines carry the retained (concrete) values in key order"})
	out = append(out, &HarnessSpec{Name: "l3_api", Pkg: "trie", Property: "C19", Witness: 1,
		Quick: []Grid{{"skel": {0, 1, 2, 3, 4, 5, 6, 7, 8, 12, 13, 14, 17, 18, 19, 23, 24, 25, 26}, "opt": {16, 9}, "enc": {1}, "runs": {0, 2}, "check": {19}, "lq": {0}, "loaded": {0, 1}},
			{"skel": {16}, "opt": {16, 9}, "enc": {1}, "runs": {0}, "check": {19}, "lq": {0}, "loaded": {0, 1}}, // thousands of nodes (ids of four and more digits)
			{"skel": append(step(100, 150, 1), append(rng(300, 306), rng(310, 315)...)...), "opt": {16, 9}, "enc": {1}, "runs": {0}, "check": {19}, "lq": {0}, "loaded": {0}}},
		Thorough: []Grid{{"skel": {0, 1, 2, 3, 4, 5, 6, 7, 8, 9}, "opt": optsDistinct, "enc": {1, 3}, "runs": {0, 1, 2, 3}, "check": {19}, "lq": {0}, "loaded": {0, 1}}},
		Note:     "String() on skeleton tries incl. short-node tables and a 257-bit root"})
	// ---- C05 round trip / determinism / residue ----
	out = append(out, &HarnessSpec{Name: "l2_api", Pkg: "trie", Property: "C05", Witness: 1,
		Quick: []Grid{{"n": {0, 1}, "L": {2}, "lens": {0, 1, 2}, "opt": optsDistinct, "enc": {1, 0, 2}, "check": {5}, "lq": {0, 1, 2}, "cv": {-1}},
			{"n": {2}, "L": {2}, "lens": rng(0, 8), "opt": optsFew, "enc": {1}, "check": {5}, "lq": {1, 2}, "cv": {-1}}},
		Thorough: []Grid{{"n": {0, 1}, "L": {3}, "lens": {0, 1, 2, 3}, "opt": optsDistinct, "enc": {1, 0, 2}, "check": {5}, "lq": {0, 1, 2, 3}, "cv": {-1}},
			{"n": {2}, "L": {2}, "lens": rng(0, 8), "opt": optsDistinct, "enc": {1, 0, 2}, "check": {5}, "lq": {0, 1, 2, 3}, "cv": {-1}},
			{"n": {3}, "L": {2}, "lens": rng(0, 26), "opt": optsFew, "enc": {1}, "check": {5}, "lq": {1, 2}, "cv": {-1}}},
		Note: "Unmarshal(Marshal(t)) answers Get/GetID/RangeGet/Search/scan/Stat identically for a symbolic query (codec stub, A-PB); re-marshal and second build give deep-equal messages under all map iteration orders; byte identity is asserted on the native replays only"})
	out = append(out, &HarnessSpec{Name: "l3_api", Pkg: "trie", Property: "C05", Witness: 1,
		Quick: []Grid{{"skel": {0, 1, 2, 4, 5, 10}, "opt": {16, 9}, "enc": {1}, "runs": {0, 2}, "check": {5}, "lq": {1, 2}},
			{"skel": {100, 102, 104}, "opt": {16, 9}, "enc": {1}, "runs": {0}, "check": {5}, "lq": {1}},
			{"skel": {8, 9, 7}, "opt": {9, 4, 2}, "enc": {1}, "runs": {0}, "check": {5}, "lq": {1}}, // 64 / 128 leaves, 512-bit Inners: word-aligned counts with every prefix mode
			{"skel": {12, 13, 14, 19, 23, 24, 25, 26}, "opt": {16, 9}, "enc": {1}, "runs": {0}, "check": {5}, "lq": {1}},
			{"skel": {17, 18}, "opt": {16}, "enc": {1}, "runs": {0}, "check": {5}, "lq": {0}},
			{"skel": {0, 13}, "opt": {16, 9}, "enc": {1}, "runs": {0}, "check": {5}, "lq": {1}, "qkey": {-1}, "qtail": {40}},
			{"skel": append(step(105, 150, 5), 300, 301, 303, 304, 310, 311, 314), "opt": {16, 9, 4}, "enc": {1}, "runs": {0}, "check": {5}, "lq": {1}, "det": {0}}},
		Thorough: []Grid{{"skel": {0, 1, 2, 3, 4, 5, 6, 7, 8, 10}, "opt": optsDistinct, "enc": {1, 2}, "runs": {0, 2}, "check": {5}, "lq": {0, 1, 2, 3, 4}}},
		Note:     "L3: round trip and determinism on skeleton tries (short-node tables with ties in the bitmap-frequency table)"})
	out = append(out, &HarnessSpec{Name: "l2_residue", Pkg: "trie", Property: "C05", Witness: 1,
		Quick: []Grid{{"L": {1}, "na": {2}, "lensa": {3}, "opta": {9}, "nb": {1}, "lensb": {1}, "optb": {16}, "nops": {2}, "seq": rng(0, 15), "lq": {1}},
			{"L": {1}, "na": {1}, "lensa": {1}, "opta": {16}, "nb": {2}, "lensb": {3}, "optb": {9}, "nops": {3}, "seq": {1, 4, 6, 13, 19, 24, 33, 45, 52, 57}, "lq": {1}}},
		Thorough: []Grid{{"L": {1}, "na": {2}, "lensa": {3}, "opta": {9, 16}, "nb": {1, 2}, "lensb": {1, 3}, "optb": {16, 2}, "nops": {3}, "seq": rng(0, 63), "lq": {1, 2}}},
		Note:     "all sequences over {Unmarshal(A), Unmarshal(B), Unmarshal(empty), Reset} on one instance: final answers, message and Stat equal a fresh instance that saw only the last operation"})
	out = append(out, &HarnessSpec{Name: "l2_residue", Pkg: "trie", Property: "C18", Witness: 1,
		Quick: []Grid{{"L": {1}, "na": {2}, "lensa": {3}, "opta": {9}, "nb": {1}, "lensb": {1}, "optb": {16}, "nops": {2}, "seq": {1, 2, 4, 6, 8, 9, 12}, "lq": {1}}},
		Note:  "Stat() after Unmarshal/Reset sequences on one instance (with Stat() calls in between) equals the Stat() of a fresh instance that loaded only the last stream"})
	out = append(out, &HarnessSpec{Name: "l2_residue", Pkg: "trie", Property: "C19", Witness: 1,
		Quick: []Grid{{"L": {1}, "na": {2}, "lensa": {3}, "opta": {9}, "nb": {1}, "lensb": {1}, "optb": {16}, "nops": {2}, "seq": {1, 4, 6, 9, 12}, "lq": {1}}},
		Note:  "String() after Unmarshal/Reset sequences on one instance (with renderings in between) equals the rendering of a fresh instance that loaded only the last stream"})
	out = append(out, &HarnessSpec{Name: "l2_reuse14", Pkg: "trie", Property: "C14", Witness: 1,
		Quick: []Grid{{"L": {1}, "enc": {3, 4, 5, 6}, "na": {1, 2}, "lensa": {1, 3}, "opta": {16}, "nb": {1, 2}, "lensb": {1, 3}, "optb": {16}, "lq": {1}, "viaload": {0, 1}},
			{"L": {1}, "enc": {5}, "na": {2}, "lensa": {3}, "opta": {9, 0}, "nb": {2}, "lensb": {3}, "optb": {9, 2}, "lq": {1}, "viaload": {0}}},
		Thorough: []Grid{{"L": {2}, "enc": {3, 4, 5, 6}, "na": {2}, "lensa": {4, 8}, "opta": {16, 9}, "nb": {1, 2}, "lensb": rng(0, 8), "optb": {16, 9}, "lq": {2}, "viaload": {0, 1}}},
		Note:     "typed getters agree with Get on an instance that already answered typed and untyped queries for data A and was then loaded with data B by a direct Unmarshal (no Reset)"})
	out = append(out, &HarnessSpec{Name: "l2_legacy0509", Pkg: "trie", Property: "C18", Witness: 1,
		Quick: []Grid{{"n": {0, 1}, "L": {2}, "lens": {0, 1, 2}, "variant": {0, 1}, "hdr": {0, 2}},
			{"n": {2}, "L": {1}, "lens": rng(0, 3), "variant": {0, 1}, "hdr": {0}}},
		Note: "KeyCnt (and every answer) is preserved when the equivalent legacy stream is loaded (writer model G.1)"})
	out = append(out, &HarnessSpec{Name: "l3_legacy", Pkg: "trie", Property: "C18", Witness: 1,
		Quick: []Grid{{"skel": {0, 1, 8, 101, 110, 303}, "model": {0, 1}, "variant": {1}, "opt": {0}, "lq": {0}}},
		Note:  "legacy-loaded skeletons: KeyCnt = n and Stat equal to the index built by the current code (0.5.10 layout)"})
	out = append(out, &HarnessSpec{Name: "l3_size_rel", Pkg: "trie", Property: "C17", Witness: 1,
		Quick: []Grid{{"family": {0, 1, 2, 3}, "n": {64}, "plen": {1, 200, 5000}}, {"family": {5}, "n": {60}, "plen": {127, 200}}, {"family": {0, 2, 5}, "n": {3, 60}, "plen": {1}, "pre": {150, 355}},
			{"family": {0, 2}, "n": {3, 60}, "plen": {1}, "pre": {20}, "preopt": {18, 19, 20, 21, 22, 9, 6, 17}}},
		Thorough: []Grid{{"family": {0, 1, 2, 3, 5}, "n": {16, 64, 256}, "plen": {1, 64, 127, 128, 200, 5000, 16000}}},
		Note:     "relational clause on key sets with many inner steps: a concrete family K versus P+K (|P| up to 5000): the size measure differs by <= 24 (real sizes by <= 16 on the native replays)"})
	// ---- C07 ----
	out = append(out, &HarnessSpec{Name: "ver_gate", Pkg: "trie", Property: "C07", Witness: 2,
		Quick:    []Grid{{"lv": rng(0, 6)}, {"pre": {1, 2, 3, 4, 5}, "lv": {1, 2, 3, 4}, "opt": {16, 9}}},
		Thorough: []Grid{{"lv": rng(0, 9)}, {"pre": {1, 2, 3, 4, 5}, "lv": rng(1, 5), "opt": {16, 9, 2}}}, // lv=16, pre+lv=13: not finished in 900 s
		Note:     "the version bytes of the header are symbolic (every string of the listed lengths): real ReadHeader/verStr/vers.IsCompatible/semver.Parse on the symbolic string; not rejected with ErrIncompatible => one of the six compatible versions (+build metadata)"})
	out = append(out, &HarnessSpec{Name: "trunc", Pkg: "trie", Property: "C07", Witness: 1,
		Quick:    []Grid{{"layout": {0, 1}, "opt": {16, 9}, "sec": {0}, "cut": rng(-6, 40)}, {"layout": {3, 4}, "opt": {16}, "sec": {0, 1, 2}, "cut": rng(-6, 40)}},
		Thorough: []Grid{{"layout": {0, 1, 2}, "opt": {16, 9, 2, 5}, "sec": {0}, "cut": rng(-12, 48)}, {"layout": {3, 4}, "opt": {16}, "sec": {0, 1, 2}, "cut": rng(-12, 48)}},
		Note:     "every strict prefix of a valid stream (cuts given relative to each section: every header byte, the first and the last body bytes, section boundaries; current, 0.5.10 and three-section legacy layouts; real header bytes, opaque bodies) is rejected with an error, without panic, and the codec stub is never handed a partial body"})
	out = append(out, &HarnessSpec{Name: "failed_load", Pkg: "trie", Property: "C07", Witness: 1,
		Quick: []Grid{{"n": {2}, "L": {1}, "lens": {3}, "opt": {16, 9}, "kind": {0, 1, 3, 4}, "cut": {0}, "lq": {1}},
			{"n": {2}, "L": {1}, "lens": {3}, "opt": {9}, "kind": {2}, "cut": {0, 5, 31}, "lq": {1}}},
		Thorough: []Grid{{"n": {1, 2}, "L": {2}, "lens": rng(0, 8), "opt": optsFew, "kind": {0, 1, 3, 4}, "cut": {0}, "lq": {0, 1, 2}},
			{"n": {2}, "L": {1}, "lens": {3}, "opt": {9, 16}, "kind": {2}, "cut": rng(0, 32), "lq": {1}}},
		Note: "an instance holding a symbolic trie answers GetID/searchID/RangeGet/ScanFrom as an empty trie after a rejected load (newer version, unparsable version, cut in header, cut in body, symbolic junk version)"})
	// ---- C11 ----
	out = append(out, &HarnessSpec{Name: "l2_nowrite", Pkg: "trie", Property: "C11", Witness: 1,
		Quick: []Grid{{"n": {0, 1}, "L": {2}, "lens": {0, 1, 2}, "opt": {16, 9}, "enc": {1}, "loaded": {0, 1}, "lq": {1}, "api": rng(0, 6)},
			{"n": {1, 2}, "L": {1}, "lens": rng(0, 3), "opt": {16}, "enc": {1}, "loaded": {2}, "lq": {1}, "api": {0, 1, 2, 4, 5}},
			{"n": {1, 2}, "L": {1}, "lens": rng(0, 3), "opt": {16, 2}, "enc": {1}, "loaded": {3}, "lq": {1}, "api": {0, 1, 2, 4, 5}},
			{"n": {2}, "L": {2}, "lens": rng(0, 8), "opt": {16, 9}, "enc": {1, 4}, "loaded": {0, 1}, "lq": {2}, "api": {0, 1, 2, 4}},
			{"n": {2}, "L": {1}, "lens": rng(0, 3), "opt": {9}, "enc": {1}, "loaded": {0, 1}, "lq": {1}, "api": {3, 5, 6}, "alpha": {1}},
			{"n": {1, 2}, "L": {1}, "lens": rng(0, 3), "opt": {16, 9}, "enc": {7, 2}, "loaded": {0, 1}, "lq": {1}, "api": {0, 1, 5}}},
		Thorough: []Grid{{"n": {0, 1}, "L": {2}, "lens": {0, 1, 2}, "opt": optsDistinct, "enc": {1, 0, 2}, "loaded": {0, 1}, "lq": {0, 1, 2}, "api": rng(0, 6)},
			{"n": {1, 2}, "L": {2}, "lens": rng(0, 8), "opt": {16, 9, 0}, "enc": {7}, "loaded": {0, 1}, "lq": {1, 2}, "api": {0, 1, 3, 5}},
			{"n": {2}, "L": {2}, "lens": rng(0, 8), "opt": optsDistinct, "enc": {1, 4}, "loaded": {0, 1}, "lq": {1, 2}, "api": {0, 1, 2, 4}},
			{"n": {3}, "L": {1}, "lens": rng(0, 7), "opt": {16, 9}, "enc": {1}, "loaded": {0, 1}, "lq": {2}, "api": {0, 1, 2, 4}},
			{"n": {2}, "L": {2}, "lens": rng(0, 8), "opt": {9, 6}, "enc": {1, 2}, "loaded": {0, 1}, "lq": {1, 2}, "api": {3, 5, 6}, "alpha": {1}}},
		Note: "write-set monitor over every object reachable from the shared *SlimTrie: no read API (Get, GetID, RangeGet, Search, GetI32, Stat, ScanFrom, Marshal, String, NewIter/next) writes to pre-existing shared memory on any path; two interleaved iterators yield what each yields alone; value kinds: U16, I32, String16 and a reflection-driven *TypeEncoder over a struct (the encoder object is part of the monitored state)"})
	// ---- C20 ----
	out = append(out, &HarnessSpec{Name: "l3_nowrite", Pkg: "trie", Property: "C11", Witness: 1,
		Quick: []Grid{{"skel": {0, 1, 2, 4, 5, 12, 14, 105, 120}, "opt": {16}, "enc": {1, 4}, "runs": {0, 2}, "loaded": {0, 1}, "lq": {1}, "api": {0, 1, 2, 4, 5}},
			{"skel": {0, 1, 2, 3, 13, 104}, "opt": {9}, "enc": {1}, "runs": {0}, "loaded": {0, 1}, "lq": {1}, "api": rng(0, 6)},
			// queries that extend an indexed key by a symbolic byte and a 40-byte tail (long unconsumed tails at a leaf)
			{"skel": {0, 1, 13}, "opt": {9, 4, 16}, "enc": {1}, "runs": {0}, "loaded": {0}, "lq": {1}, "api": {0, 1, 3}, "qkey": {-1}, "qtail": {40}}},
		Thorough: []Grid{{"skel": append([]int{0, 1, 2, 3, 4, 5, 6, 7, 8, 10, 11, 12, 13, 14}, step(100, 150, 5)...), "opt": {16, 9, 2}, "enc": {1, 4, 2}, "runs": {0, 2}, "loaded": {0, 1}, "lq": {1, 2}, "api": rng(0, 6)}},
		Note:     "L3: the write-set monitor on skeleton tries (short-node tables, 257-bit nodes, keys of 0..300 bytes, scan stacks deeper than the initial stack), fresh and loaded; interleaved iterators on Complete skeletons"})
	out = append(out, &HarnessSpec{Name: "l2_alias", Pkg: "trie", Property: "C20", Witness: 1,
		Quick: []Grid{{"n": {0, 1, 2}, "L": {1}, "lens": rng(0, 3), "opt": optsAll, "part": {0}, "lq": {0}},
			{"n": {1, 2}, "L": {1}, "lens": rng(0, 3), "opt": {16, 9, 2}, "part": {1, 2}, "lq": {1}},
			{"n": {1, 2}, "L": {1}, "lens": rng(0, 3), "opt": {16, 9, 0}, "part": {3}, "lq": {1}},
			{"n": {1, 2, 3}, "L": {1}, "lens": {1, 3, 7}, "opt": {16, 0}, "part": {4}, "lq": {0}}},
		Thorough: []Grid{{"n": {0, 1, 2}, "L": {2}, "lens": rng(0, 8), "opt": optsAll, "part": {0}, "lq": {0}},
			{"n": {1, 2}, "L": {2}, "lens": rng(0, 8), "opt": optsDistinct, "part": {1, 2}, "lq": {1, 2}},
			{"n": {3}, "L": {1}, "lens": rng(0, 7), "opt": {16, 9}, "part": {0, 1, 2}, "lq": {1}},
			{"n": {1, 2}, "L": {2}, "lens": rng(0, 8), "opt": {16, 9, 0, 2}, "part": {3}, "lq": {1}},
			{"n": {3}, "L": {1}, "lens": rng(0, 7), "opt": {16}, "part": {3}, "lq": {1}}},
		Note: "NewSlimTrie writes to none of keys/values/opts (monitor + equality); Unmarshal neither writes nor retains the input buffer (monitor, heap reachability with the codec stub aliasing pessimistically, answers unchanged after the buffer is overwritten with symbolic bytes); Marshal output is unreachable from the trie and overwriting it changes nothing; caller-owned []byte values (encode.Bytes) are not reachable from the trie and overwriting them after the build changes no answer"})
	// ---- C12 ----
	out = append(out, &HarnessSpec{Name: "ix_exact", Pkg: "index", Property: "C12", Witness: 1,
		Quick: []Grid{{"n": {0, 1}, "L": {2}, "lens": {0, 1, 2}, "mode": {0, 1}, "lq": {0, 1, 2, 3}},
			{"n": {2}, "L": {2}, "lens": rng(0, 8), "mode": {0, 1}, "lq": {1, 3}},
			{"n": {3}, "L": {1}, "lens": rng(0, 7), "mode": {0, 1}, "lq": {2}},
			{"n": {2}, "L": {2}, "lens": rng(0, 8), "mode": {0, 1}, "lq": {2}, "other": {2}}},
		Thorough: []Grid{{"n": {0, 1}, "L": {3}, "lens": {0, 1, 2, 3}, "mode": {0, 1}, "lq": {0, 1, 2, 3, 4}},
			{"n": {2, 3}, "L": {2}, "lens": rng(0, 8), "mode": {0, 1}, "lq": {2}, "other": {1, 2, 3}},
			{"n": {2}, "L": {2}, "lens": rng(0, 8), "mode": {0, 1}, "lq": {0, 1, 2, 3, 4}},
			{"n": {3}, "L": {2}, "lens": rng(0, 26), "mode": {0, 1}, "lq": {1, 2, 3}},
			{"n": {4}, "L": {1}, "lens": rng(0, 15), "mode": {0, 1}, "lq": {2}}},
		Note: "symbolic records (key, int64 offset): strictly increasing offsets with Get, non-decreasing block offsets (arbitrary block structure as models of the symbolic offsets) with RangeGet; a key-verifying reader; found exactly for indexed keys with the stored record, for an arbitrary symbolic query"})
	out = append(out, &HarnessSpec{Name: "ix_skel", Pkg: "index", Property: "C12", Witness: 1,
		Quick: []Grid{{"keys": {7, 105, 120, 154, 194, 342}, "bs": {1, 3, 64}, "lq": {1}},
			{"keys": {12, 13}, "bs": {1, 3}, "lq": {1}},    // key lengths 0..300, on and around 32/64/128/256 bytes
			{"keys": {23, 24}, "bs": {1, 2, 5}, "lq": {1}}, // prefix keys of 9..63 bytes followed by a separator byte below 0x10
			{"keys": {17, 18}, "bs": {1, 3}, "lq": {0}},    // all 256 byte branches at the root (and the empty key); every key is looked up
			{"keys": {7, 105, 154}, "bs": {1, 3}, "lq": {1}, "other": {1, 2, 3}}},
		Thorough: []Grid{{"keys": append([]int{7, 154, 194, 342, 623}, step(105, 400, 15)...), "bs": {1, 2, 3, 7, 64}, "lq": {1, 2}}, {"keys": {7, 105, 120, 154, 194, 342}, "bs": {1, 3, 64}, "lq": {1}, "other": {1, 2, 3}}},
		Note:     "L3: concrete key sets (257-bit root, 64-aligned bitmap lengths / leaf counts / inner-node counts, sweeps) with block sizes 1..64: every indexed key returns its record; a symbolic query is found exactly when indexed"})
	out = append(out, &HarnessSpec{Name: "ix_longrun", Pkg: "index", Property: "C12", Witness: 1,
		Quick: []Grid{{"run": {2047, 16384, 32768, 40000}, "fan": {12}}},
		Note:  "shared runs of 2047..40000 bytes in front of a 257-bit node: refused only beyond the documented key length, otherwise every key is found with its record"})
	// ---- C16 ----
	out = append(out, &HarnessSpec{Name: "arr_map", Pkg: "array", Property: "C16", Witness: 1,
		Quick: []Grid{{"type": rng(0, 5), "n": {1}, "words": rng(0, 5), "pw": rng(0, 5), "loaded": {0}},
			{"type": {0, 1}, "n": {1}, "words": {0, 2, 5}, "pw": {0, 2, 5}, "loaded": {1}},
			{"type": {0, 4}, "n": {2}, "words": {0, 6, 7, 12, 30, 35}, "pw": {0, 1, 5}, "loaded": {0}},
			{"type": {1}, "n": {3}, "words": {0, 42, 43, 5*36 + 4*6 + 0}, "pw": {0, 1, 4}, "loaded": {0, 1}},
			{"type": {6, 7}, "n": {1, 2}, "words": {0, 6, 7, 30}, "pw": {0, 1, 5}, "loaded": {0, 1}},
			// big-endian encoders for the element types were built earlier in the process
			{"type": {1, 6, 7}, "n": {1, 2}, "words": {0, 7}, "pw": {0, 1}, "loaded": {0, 1}, "bepre": {1}}},
		Thorough: []Grid{{"type": rng(0, 5), "n": {1, 2}, "words": rng(0, 35), "pw": rng(0, 5), "loaded": {0}},
			{"type": {6, 7}, "n": {1, 2, 3}, "words": rng(0, 35), "pw": rng(0, 5), "loaded": {0, 1}},
			{"type": {0, 1}, "n": {1, 2}, "words": rng(0, 35), "pw": rng(0, 5), "loaded": {1}},
			{"type": {1, 4}, "n": {3}, "words": rng(0, 215), "pw": rng(0, 5), "loaded": {0}}},
		Note: "typed arrays U16..I64 from symbolic ascending indexes (enumerated 64-bit word, symbolic bit) and symbolic elements: typed Get, raw GetBytes and the generic Array agree with the oracle for a symbolic probe inside the bitmap span; round trip through the codec stub into the typed and the generic type; struct elements with alignment padding through New / NewEmpty + load"})
	out = append(out, &HarnessSpec{Name: "arr_invalid", Pkg: "array", Property: "C16", Witness: 1,
		Quick:    []Grid{{"n": {0, 1, 2, 3}, "words": {0, 1, 6, 7, 42}, "delta": {0}}, {"n": {0, 1, 2}, "words": {0, 7}, "delta": {-2, -1, 1, 2}}},
		Thorough: []Grid{{"n": {0, 1, 2, 3}, "words": rng(0, 43), "delta": {0}}, {"n": {4}, "words": {0, 1, 7, 259, 1295}, "delta": {0}}, {"n": {0, 1, 2, 3}, "words": {0, 7}, "delta": {-3, -2, -1, 1, 2, 3}}},
		Note:     "without the ascending assumption: rejected with ErrIndexNotAscending exactly when some neighbours are not strictly ascending; lengths differing by -2..2 give ErrIndexLen; in both cases nothing is built"})
	// ---- C17 ----
	out = append(out, &HarnessSpec{Name: "l2_size_rel", Pkg: "trie", Property: "C17", Witness: 2,
		Quick: []Grid{{"n": {1}, "L": {2}, "lens": {0, 1, 2}, "plen": {64, 4096}},
			{"n": {2}, "L": {2}, "lens": rng(0, 8), "plen": {64, 4096, 9000, 16384}},
			{"n": {3}, "L": {1}, "lens": rng(0, 7), "plen": {64}}},
		Thorough: []Grid{{"n": {1, 2}, "L": {2}, "lens": rng(0, 8), "plen": {1, 64, 4096, 16000}},
			{"n": {3}, "L": {2}, "lens": rng(0, 26), "plen": {64, 4096}}},
		Note: "relational clause: symbolic K and P+K (concrete prefix of 64/4096 bytes), default options, nil values: a structural upper-bound size measure differs by <= 24; the real serialized sizes differ by <= 16 on the native replays"})
	out = append(out, &HarnessSpec{Name: "l3_size_abs", Pkg: "trie", Property: "C17", Witness: 1,
		Quick:    []Grid{{"family": {0, 1, 2, 3, 4}, "n": {16, 64}}},
		Thorough: []Grid{{"family": {0, 1, 2, 3, 4}, "n": {16, 64, 256}}},
		Note:     "adversarial concrete families (caterpillar, long steps, fan-out 11 byte nodes, many distinct bitmaps) with a symbolic tail: upper-bound measure <= 8n+256; real size checked on the native replays"})
	// ---- C06 ----
	out = append(out, &HarnessSpec{Name: "l2_legacy0509", Pkg: "trie", Property: "C06", Witness: 1,
		Quick: []Grid{{"n": {0, 1}, "L": {2}, "lens": {0, 1, 2}, "variant": {0, 1, 3, 4}, "hdr": {0, 1, 2}},
			{"n": {2}, "L": {2}, "lens": rng(0, 8), "variant": {0, 1, 3, 4}, "hdr": {0, 2}},
			{"n": {3}, "L": {1}, "lens": rng(0, 7), "variant": {0, 3}, "hdr": {0}, "alpha": {1}}},
		Thorough: []Grid{{"n": {0, 1, 2}, "L": {2}, "lens": rng(0, 8), "variant": {0, 1, 2, 3, 4, 5}, "hdr": {0, 1, 2}},
			{"n": {3}, "L": {2}, "lens": rng(0, 26), "variant": {0, 1, 3, 4}, "hdr": {0, 2}, "alpha": {1}},
			{"n": {3}, "L": {1}, "lens": rng(0, 7), "variant": {0, 3}, "hdr": {0}}},
		Note: "symbolic key set -> writer model G.1 (u32 children with the first-child id in the upper half / 16-bit bitmap children / extended bitmaps / steps on leaves; header 1.0.0, 0.5.8, 0.5.9) -> three pbcmpl sections -> real Unmarshal (version dispatch, before000510ToNewChildrenArray, creator) -> Get/RangeGet/Search on every key; unchanged after the buffer is overwritten"})
	out = append(out, &HarnessSpec{Name: "l2_legacy0510", Pkg: "trie", Property: "C06", Witness: 1,
		Quick: []Grid{{"n": {0, 1}, "L": {2}, "lens": {0, 1, 2}, "opt": {0, 2, 8, 1, 9}, "enc": {1, 0}, "hdr": {0, 1}, "lq": {1, 2}},
			{"n": {2}, "L": {2}, "lens": rng(0, 8), "opt": {0, 2, 8}, "enc": {1}, "hdr": {0, 1}, "lq": {2}},
			{"n": {2}, "L": {2}, "lens": rng(0, 8), "opt": {2, 8}, "enc": {0}, "hdr": {0, 1}, "lq": {2}}, // keys-only streams (no Leaves) that store prefixes
			{"n": {2}, "L": {1}, "lens": rng(0, 3), "opt": {8}, "enc": {1}, "hdr": {0, 1}, "lq": {1}, "alpha": {1}},
			{"n": {3}, "L": {1}, "lens": rng(0, 7), "opt": {2}, "enc": {1}, "hdr": {0}, "lq": {2}}},
		Thorough: []Grid{{"n": {0, 1, 2}, "L": {2}, "lens": rng(0, 8), "opt": {0, 2, 8, 1, 3, 9}, "enc": {1, 0, 4}, "hdr": {0, 1}, "lq": {0, 1, 2, 3}},
			{"n": {2}, "L": {2}, "lens": rng(0, 8), "opt": {8, 9}, "enc": {1}, "hdr": {0}, "lq": {1, 2}, "alpha": {1}},
			{"n": {3}, "L": {2}, "lens": rng(0, 26), "opt": {0, 2, 8}, "enc": {1}, "hdr": {0}, "lq": {1, 2, 3}}},
		Note: "message of the current builder rewritten by writer model G.2 into the 0.5.10/0.5.11 layout (nopref / innpref / allpref) -> real Unmarshal (before000512InnerPrefixTobitstr, before000512FixLeafSize, init) -> same answers as the index it encodes for a symbolic query; exact absent-key answers and scans for allpref"})
	out = append(out, &HarnessSpec{Name: "l3_legacy", Pkg: "trie", Property: "C06", Witness: 1,
		Quick: []Grid{{"skel": {0, 1, 2, 8, 12, 13, 14}, "model": {0}, "variant": {0, 1, 3}, "opt": {0}, "lq": {1}},
			{"skel": {0, 1, 8, 9, 12, 13, 14}, "model": {1}, "variant": {0}, "opt": {0, 2, 8}, "lq": {1}},
			// scale: 30000 keys, > 32768 nodes (node ids beyond 15 bits in the u32 children elements)
			{"skel": {15}, "model": {0}, "variant": {0, 1}, "opt": {0}, "lq": {1}},
			{"skel": {16}, "model": {1}, "variant": {0}, "opt": {0, 8}, "lq": {1}},
			{"skel": append(step(100, 150, 2), append(rng(300, 306), rng(310, 315)...)...), "model": {0}, "variant": {1}, "opt": {0}, "lq": {0}},
			{"skel": append(step(100, 150, 2), append(rng(300, 306), rng(310, 315)...)...), "model": {1}, "variant": {0}, "opt": {0, 8}, "lq": {0}}},
		Thorough: []Grid{{"skel": {0, 1, 2, 3, 4, 7, 8, 9}, "model": {0}, "variant": {0, 1, 3, 4}, "opt": {0}, "lq": {1, 2}},
			{"skel": {0, 1, 2, 3, 4, 5, 7, 8, 9}, "model": {1}, "variant": {0}, "opt": {0, 2, 8, 9}, "lq": {1, 2, 3}}},
		Note: "L3: skeleton key sets (incl. 64 and 128 leaves, prefix keys, bytes >= 0x80) written by both writer models and loaded; every key answers, and a symbolic query answers as on the index built by the current code"})
	return out
}
