package main

// Property-level driver: work items, vacuity twins, native replay of witnesses and of
// counterexamples, known findings, evidence.

import (
	"bytes"
	"crypto/sha1"
	"encoding/json"
	"fmt"
	"os"
	"os/exec"
	"path/filepath"
	"sort"
	"strconv"
	"strings"
	"time"
)

type vCase struct {
	Harness string            `json:"harness"`
	Params  map[string]int    `json:"params"`
	Inputs  map[string]uint64 `json:"inputs"`
}

type ReplayFile struct {
	Property  string            `json:"property"`
	Pkg       string            `json:"pkg"`
	Harness   string            `json:"harness"`
	Assertion string            `json:"assertion"`
	Kind      string            `json:"kind"`
	Params    map[string]int    `json:"params"`
	Inputs    map[string]uint64 `json:"inputs"`
	Msg       string            `json:"msg"`
	NativeLog []string          `json:"native_log"`
}

type KnownFinding struct {
	Status    string         `json:"status"` // known | fixed
	Property  string         `json:"property"`
	Harness   string         `json:"harness"`
	Assertion string         `json:"assertion"`
	Params    map[string]int `json:"params"`
	What      string         `json:"what"`
	Commit    string         `json:"commit,omitempty"`
}

func loadKnownFindings() []KnownFinding {
	var kf []KnownFinding
	b, err := os.ReadFile(filepath.Join(verifDir, "known_findings.json"))
	if err != nil {
		return nil
	}
	json.Unmarshal(b, &kf)
	return kf
}

func matchKnown(kfs []KnownFinding, prop string, v Violation) *KnownFinding {
	for i := range kfs {
		k := &kfs[i]
		if k.Status != "known" || k.Property != prop || k.Harness != v.Harness || k.Assertion != v.Assertion {
			continue
		}
		ok := true
		for name, val := range k.Params {
			if pv, has := v.Params[name]; !has || pv != val {
				ok = false
			}
		}
		if ok {
			return k
		}
	}
	return nil
}

// nativeReplay runs the cases against the natively compiled real code (go test -overlay).
func nativeReplay(P *Program, pkg string, cases []vCase) ([][]string, error) {
	return nativeReplayOpt(P, pkg, cases, false)
}

func nativeReplayOpt(P *Program, pkg string, cases []vCase, race bool) ([][]string, error) {
	if len(cases) == 0 {
		return nil, nil
	}
	tmp, err := os.MkdirTemp("", "vcheck-replay-")
	if err != nil {
		return nil, err
	}
	defer os.RemoveAll(tmp)
	repl := map[string]string{}
	i := 0
	for virt, content := range P.overlay {
		real := filepath.Join(tmp, fmt.Sprintf("f%d.go", i))
		i++
		if err := os.WriteFile(real, content, 0644); err != nil {
			return nil, err
		}
		repl[virt] = real
	}
	for virt, content := range nativeOnly {
		real := filepath.Join(tmp, fmt.Sprintf("t%d_test.go", i))
		i++
		if err := os.WriteFile(real, content, 0644); err != nil {
			return nil, err
		}
		repl[virt] = real
	}
	if extraTest != "" {
		return runExtraTest(tmp, repl, pkg)
	}
	rt, err := os.ReadFile(filepath.Join(verifDir, "harness/common/replay_test.go.txt"))
	if err != nil {
		return nil, err
	}
	real := filepath.Join(tmp, "replay_test.go")
	os.WriteFile(real, []byte(strings.Replace(string(rt), "package PKG", "package "+pkg, 1)), 0644)
	repl[filepath.Join(repoDir, pkg, "zz_verif_replay_test.go")] = real
	ovb, _ := json.Marshal(map[string]interface{}{"Replace": repl})
	ovPath := filepath.Join(tmp, "overlay.json")
	os.WriteFile(ovPath, ovb, 0644)
	cb, _ := json.Marshal(cases)
	casePath := filepath.Join(tmp, "cases.json")
	os.WriteFile(casePath, cb, 0644)
	args := []string{"test", "-tags", "verif", "-vet=off", "-count=1", "-v", "-timeout", "20m", "-run", "^TestVerifReplay$", "-overlay", ovPath}
	if race {
		args = append(args, "-race")
	}
	args = append(args, "./"+pkg)
	cmd := exec.Command("go", args...)
	cmd.Dir = repoDir
	cmd.Env = append(os.Environ(), "GOFLAGS=-mod=mod", "GOPROXY=off", "GOSUMDB=off", "GOTOOLCHAIN=local", "VERIF_REPLAY="+casePath)
	var out bytes.Buffer
	cmd.Stdout = &out
	cmd.Stderr = &out
	runErr := cmd.Run()
	logs := make([][]string, len(cases))
	cur := -1
	ended := 0
	for _, line := range strings.Split(out.String(), "\n") {
		switch {
		case strings.HasPrefix(line, "VCASE "):
			cur, _ = strconv.Atoi(strings.TrimPrefix(line, "VCASE "))
		case strings.HasPrefix(line, "VLOG "):
			if cur >= 0 && cur < len(logs) {
				logs[cur] = append(logs[cur], strings.TrimPrefix(line, "VLOG "))
			}
		case strings.Contains(line, "WARNING: DATA RACE"):
			if cur >= 0 && cur < len(logs) {
				logs[cur] = append(logs[cur], "RACE")
			}
		case strings.HasPrefix(line, "VEND "):
			ended++
			cur = -1
		}
	}
	if ended != len(cases) {
		// a case that never ends natively (hang / fatal error) is reported on the case it stopped in
		if cur >= 0 && cur < len(logs) {
			logs[cur] = append(logs[cur], "PANIC native run did not finish: "+lastLines(out.String(), 3))
			return logs, nil
		}
		return logs, fmt.Errorf("native replay failed (%v): %s", runErr, lastLines(out.String(), 15))
	}
	return logs, nil
}

func lastLines(s string, n int) string {
	ls := strings.Split(strings.TrimSpace(s), "\n")
	if len(ls) > n {
		ls = ls[len(ls)-n:]
	}
	return strings.Join(ls, " | ")
}

func obsOf(log []string) []string {
	var r []string
	for _, l := range log {
		if strings.HasPrefix(l, "OBS ") {
			r = append(r, strings.TrimPrefix(l, "OBS "))
		}
	}
	return r
}

func reproduces(v Violation, log []string) bool {
	for _, l := range log {
		if v.Kind == "assert" && l == "ASSERT-FAIL "+v.Assertion {
			return true
		}
		if v.Kind == "panic" && strings.HasPrefix(l, "PANIC ") {
			return true
		}
		if l == "RACE" && strings.Contains(v.Assertion, "no-shared-write") {
			return true
		}
	}
	// The real code fails on these inputs, though at another assertion than the one the engine
	// stopped at (the engine assumes a failed assertion away and may never reach the later one;
	// e.g. a self-copy is a write for the monitor but no change natively, while the aliasing it
	// creates fails the next assertion): a native failure is a real failure of the property.
	for _, l := range log {
		if strings.HasPrefix(l, "ASSERT-FAIL ") || strings.HasPrefix(l, "PANIC ") {
			return true
		}
	}
	return false
}

type specSummary struct {
	Harness     string                 `json:"harness"`
	Note        string                 `json:"decides"`
	Items       int                    `json:"work_items"`
	Paths       int64                  `json:"paths"`
	Instrs      int64                  `json:"ssa_instructions"`
	Params      []Grid                 `json:"enumerated_parameters"`
	Assertions  map[string]*assertStat `json:"assertions"`
	Twin        string                 `json:"vacuity_twin"`
	WallS       float64                `json:"wall_s"`
	Exhaustive  bool                   `json:"full_machine_range"`
	UnknownFeas int                    `json:"unknown_feasibility_kept"`
	Infeasible  int                    `json:"infeasible_tuples"`
}

func seedOf() int {
	s, _ := strconv.Atoi(os.Getenv("VERIF_SEED"))
	return s
}

var noEvidence bool

func runProperty(prop, tier string, workers int) int {
	t0 := time.Now()
	var specs []*HarnessSpec
	for _, s := range allSpecs() {
		if s.Property == prop {
			if only := os.Getenv("VERIF_ONLY_HARNESS"); only != "" && s.Name != only {
				continue // development aid (validating one harness of a deeper tier); never set by a registered command
			}
			specs = append(specs, s)
		}
	}
	// lemmas that license engine summaries run with every property that executes the builder
	if len(specs) > 0 && prop != "C15" && prop != "C16" && !strings.HasPrefix(prop, "DBG") {
		for _, s := range allSpecs() {
			if s.Property == "*" {
				specs = append(specs, s)
			}
		}
	}
	if len(specs) == 0 {
		fmt.Fprintf(os.Stderr, "no harness registered for property %s\n", prop)
		return 2
	}
	P, err := loadProgram()
	if err != nil {
		fmt.Printf("INCONCLUSIVE property=%s cannot load /repo: %v\n", prop, err)
		return 3
	}
	var items []WorkItem
	twinIdx := map[int]bool{}
	var unavailable []string
	for _, s := range specs {
		if f, dropped := droppedHarness[s.Name]; dropped {
			unavailable = append(unavailable, fmt.Sprintf("harness %s is unavailable on this tree: %s does not compile against the changed internals (the remaining harnesses still ran)", s.Name, f))
			continue
		}
		cs := s.tuples(tier)
		for _, p := range cs {
			items = append(items, WorkItem{Spec: s, Params: p, Idx: len(items)})
		}
		// vacuity twins on the first, middle and last tuple of each spec (one must be violated)
		seenTw := map[int]bool{}
		for _, ti := range []int{0, len(cs) / 2, len(cs) - 1} {
			if seenTw[ti] {
				continue
			}
			seenTw[ti] = true
			tw := map[string]int{"__twin": 1}
			for k, v := range cs[ti] {
				tw[k] = v
			}
			twinIdx[len(items)] = true
			items = append(items, WorkItem{Spec: s, Params: tw, Idx: len(items)})
		}
	}
	results, rerr := runItems(P, items, workers, -1, false)
	if rerr != nil {
		fmt.Printf("INCONCLUSIVE property=%s engine error: %v\n", prop, rerr)
	}

	exit := 0
	inconclusive := append([]string{}, unavailable...)
	sums := map[string]*specSummary{}
	var order []string
	funcs := map[string]bool{}
	stubs := map[string]int{}
	var solver SolverStats
	var totalPaths, totalInstrs int64
	var wits []struct {
		pkg string
		w   Witness
		h   string
	}
	type cand struct {
		pkg string
		v   Violation
	}
	var cands []cand
	for _, r := range results {
		s := r.Item.Spec
		sm := sums[s.Name]
		if sm == nil {
			sm = &specSummary{Harness: s.Name, Note: s.Note, Params: s.grids(tier), Assertions: map[string]*assertStat{}, Twin: "not-run", Exhaustive: s.Exhaustive}
			sums[s.Name] = sm
			order = append(order, s.Name)
		}
		for _, f := range r.Res.Funcs {
			funcs[f] = true
		}
		for k, v := range r.Res.Stubs {
			stubs[k] += v
		}
		solver.Queries += r.Res.Solver.Queries
		solver.Sat += r.Res.Solver.Sat
		solver.Unsat += r.Res.Solver.Unsat
		solver.Unknown += r.Res.Solver.Unknown
		solver.WallS += r.Res.Solver.WallS
		solver.Retried += r.Res.Solver.Retried
		solver.Crossed += r.Res.Solver.Crossed
		solver.Disagree += r.Res.Solver.Disagree
		if twinIdx[r.Item.Idx] {
			switch {
			case r.Res.Status == "violation":
				sm.Twin = "violated"
			case r.Res.Status == "inconclusive":
				if sm.Twin != "violated" {
					sm.Twin = "inconclusive: " + firstLine(r.Res.Reason)
				}
			default:
				if sm.Twin == "not-run" {
					sm.Twin = "NOT violated"
				}
			}
			continue
		}
		sm.Items++
		sm.Paths += r.Res.Paths
		sm.Instrs += r.Res.Instrs
		sm.WallS += r.Wall
		sm.UnknownFeas += r.Res.UnknownFeas
		totalPaths += r.Res.Paths
		totalInstrs += r.Res.Instrs
		for id, st := range r.Res.AssertStats {
			a := sm.Assertions[id]
			if a == nil {
				a = &assertStat{}
				sm.Assertions[id] = a
			}
			a.Paths += st.Paths
			a.Discharged += st.Discharged
			a.Violated += st.Violated
		}
		if r.Res.Status == "inconclusive" {
			pb, _ := json.Marshal(r.Item.Params)
			inconclusive = append(inconclusive, fmt.Sprintf("%s %s: %s", s.Name, pb, firstLine(r.Res.Reason)))
		}
		if r.Res.Status == "ok" && r.Res.Paths == 0 {
			sm.Infeasible++ // the tuple's preconditions are unsatisfiable (e.g. lengths that cannot be ascending)
		} else if r.Res.Status == "ok" && r.Res.Reached["end"] == 0 {
			pb, _ := json.Marshal(r.Item.Params)
			inconclusive = append(inconclusive, fmt.Sprintf("%s %s: no path reached the end of the harness", s.Name, pb))
		}
		for _, w := range r.Res.Witnesses {
			wits = append(wits, struct {
				pkg string
				w   Witness
				h   string
			}{s.Pkg, w, s.Name})
		}
		for _, v := range r.Res.Violations {
			cands = append(cands, cand{s.Pkg, v})
		}
	}

	for _, n := range order {
		if sums[n].Twin != "violated" {
			inconclusive = append(inconclusive, n+": vacuity twin "+sums[n].Twin)
		}
	}

	// ---- witness validation against the native build ----
	validated, mismatched := 0, 0
	var samples []interface{}
	type nativeViolation struct {
		pkg string
		log []string
		v   Violation
	}
	var nativeFound []nativeViolation
	byPkg := map[string][]int{}
	for i, w := range wits {
		byPkg[w.pkg] = append(byPkg[w.pkg], i)
	}
	for pkg, idxs := range byPkg {
		var cases []vCase
		for _, i := range idxs {
			cases = append(cases, vCase{Harness: wits[i].h, Params: wits[i].w.Params, Inputs: wits[i].w.Inputs})
		}
		logs, err := nativeReplay(P, pkg, cases)
		if err != nil {
			inconclusive = append(inconclusive, "witness replay: "+err.Error())
			continue
		}
		for k, i := range idxs {
			got := obsOf(logs[k])
			want := wits[i].w.Obs
			bad := len(got) != len(want)
			for j := 0; !bad && j < len(got); j++ {
				if got[j] != want[j] {
					bad = true
				}
			}
			for _, l := range logs[k] {
				if strings.HasPrefix(l, "PANIC") || strings.HasPrefix(l, "ASSERT-FAIL") || strings.HasPrefix(l, "ASSUME-FAILED") || strings.HasPrefix(l, "NO-SUCH") {
					bad = true
				}
			}
			if bad {
				mismatched++
				// a native assertion failure / panic on concrete witness inputs is a failure of the real
				// code whether or not the engine's path predicted it (state the sequential models do not
				// capture, e.g. a runtime pool): it is reported as a violation, not only as a mismatch
				nat := ""
				for _, l := range logs[k] {
					if strings.HasPrefix(l, "ASSERT-FAIL ") && nat == "" {
						nat = strings.TrimPrefix(l, "ASSERT-FAIL ")
					}
				}
				kind := "assert"
				if nat == "" {
					for _, l := range logs[k] {
						if strings.HasPrefix(l, "PANIC ") {
							nat, kind = "no-panic", "panic"
						}
					}
				}
				if nat != "" {
					nativeFound = append(nativeFound, nativeViolation{pkg: pkg, log: logs[k],
						v: Violation{Harness: wits[i].h, Assertion: nat, Params: wits[i].w.Params, Inputs: wits[i].w.Inputs, Kind: kind,
							Msg: "native run of a sampled path witness fails (the engine's path did not predict it)"}})
				} else {
					inconclusive = append(inconclusive, fmt.Sprintf("witness mismatch in %s: engine %v native %v", wits[i].h, want, logs[k]))
				}
			} else {
				validated++
				if len(samples) < 12 {
					samples = append(samples, map[string]interface{}{"harness": wits[i].h, "params": wits[i].w.Params, "inputs": wits[i].w.Inputs, "observed": want})
				}
			}
		}
	}

	// ---- counterexamples: replay before reporting ----
	kfs := loadKnownFindings()
	violations := 0
	knownHit := map[string]bool{}
	emit := func(v Violation, pkg string, log []string) {
		if kf := matchKnown(kfs, prop, v); kf != nil {
			key := kf.Harness + "/" + kf.Assertion + "/" + kf.What
			if !knownHit[key] {
				knownHit[key] = true
				fmt.Printf("KNOWN-FINDING: property=%s %s\n", prop, kf.What)
			}
			return
		}
		rf := ReplayFile{Property: prop, Pkg: pkg, Harness: v.Harness, Assertion: v.Assertion, Kind: v.Kind, Params: v.Params, Inputs: v.Inputs, Msg: v.Msg, NativeLog: log}
		b, _ := json.MarshalIndent(rf, "", " ")
		h := sha1.Sum(b)
		dir := filepath.Join(verifDir, "replays", prop)
		os.MkdirAll(dir, 0755)
		path := filepath.Join(dir, fmt.Sprintf("%s-%x.json", v.Harness, h[:6]))
		os.WriteFile(path, b, 0644)
		fmt.Printf("VIOLATION property=%s replay=%s\n", prop, path)
		fmt.Printf("  harness=%s assertion=%s params=%v inputs=%v native=%v\n", v.Harness, v.Assertion, v.Params, v.Inputs, log)
		violations++
	}
	cbyPkg := map[string][]int{}
	for i, c := range cands {
		cbyPkg[c.pkg] = append(cbyPkg[c.pkg], i)
	}
	for pkg, idxs := range cbyPkg {
		var cases []vCase
		for _, i := range idxs {
			cases = append(cases, vCase{Harness: cands[i].v.Harness, Params: cands[i].v.Params, Inputs: cands[i].v.Inputs})
		}
		logs, err := nativeReplayOpt(P, pkg, cases, prop == "C11")
		if err != nil {
			inconclusive = append(inconclusive, "counterexample replay: "+err.Error())
			continue
		}
		if prop == "C11" {
			// the race detector reports one pair of stacks once per process: cases that share a
			// process with an earlier report of the same race are replayed on their own
			redo := 0
			for k, i := range idxs {
				if redo < 8 && !reproduces(cands[i].v, logs[k]) {
					redo++
					if l1, e1 := nativeReplayOpt(P, pkg, cases[k:k+1], true); e1 == nil {
						logs[k] = l1[0]
					}
				}
			}
		}
		for k, i := range idxs {
			v := cands[i].v
			if !reproduces(v, logs[k]) {
				pb, _ := json.Marshal(v)
				inconclusive = append(inconclusive, fmt.Sprintf("counterexample does not reproduce natively (engine/stub bug): %s native=%v", pb, logs[k]))
				continue
			}
			emit(v, pkg, logs[k])
		}
	}
	for _, nv := range nativeFound {
		emit(nv.v, nv.pkg, nv.log)
	}
	if violations > 0 {
		exit = 1
	}
	if len(inconclusive) > 0 && exit == 0 {
		exit = 3
	}
	for _, s := range inconclusive {
		fmt.Printf("INCONCLUSIVE property=%s %s\n", prop, s)
	}

	// ---- evidence ----
	var fl []string
	for f := range funcs {
		if strings.Contains(f, "openacid") && !strings.Contains(f, ".v") && !strings.Contains(f, ".H_") {
			fl = append(fl, f)
		}
	}
	sort.Strings(fl)
	var sl []specSummary
	exhaustive := true
	for _, n := range order {
		sl = append(sl, *sums[n])
		if !sums[n].Exhaustive {
			exhaustive = false
		}
	}
	if len(samples) == 0 {
		samples = append(samples, map[string]interface{}{"note": "no witness sampled on this run"})
	}
	level := "model_checking"
	if l, ok := propLevel[prop]; ok {
		level = l
	}
	cov := map[string]interface{}{
		"states": totalPaths, "transitions": totalInstrs, "traces_validated_against_impl": validated,
		"samples": samples, "harnesses": sl, "functions_encoded": fl,
		"solver": map[string]interface{}{"backend": "z3 4.8.12 (-in, push/pop); unknown -> z3 5.1.0, cvc5 1.0.3", "queries": solver.Queries, "sat": solver.Sat, "unsat": solver.Unsat,
			"unknown": solver.Unknown, "wall_s": round2(solver.WallS), "retried_on_other_solver": solver.Retried, "cross_checked": solver.Crossed, "disagreements": solver.Disagree},
		"stubs_hit": stubs, "witness_mismatches": mismatched, "inconclusive": inconclusive,
		"encoding":      "regenerated from /repo working tree on this run via go/packages+go/ssa (load " + fmt.Sprintf("%.1fs", P.loadS) + ")",
		"bounds_note":   "every enumerated parameter value is listed per harness; all byte/integer contents are solver-decided",
		"outside_claim": outsideClaim[prop],
	}
	if exhaustive {
		cov["exhaustive"] = true
	}
	if ex, ok := propExplanation[prop]; ok {
		cov["explanation"] = ex
	}
	ev := map[string]interface{}{
		"property_id": prop, "tier": tier, "seed": seedOf(), "level": level, "coverage": cov,
		"assumptions": assumptionsFor(prop), "wall_s": round2(time.Since(t0).Seconds()), "violations": violations,
	}
	eb, _ := json.MarshalIndent(ev, "", " ")
	if !noEvidence {
		evDir := filepath.Join(verifDir, "evidence")
		if d := os.Getenv("VERIF_EVIDENCE_DIR"); d != "" {
			evDir = d // development runs that must not overwrite the registered evidence
		}
		os.MkdirAll(evDir, 0755)
		os.WriteFile(filepath.Join(evDir, prop+".json"), eb, 0644)
	}
	fmt.Printf("property=%s tier=%s items=%d paths=%d instrs=%d queries=%d validated=%d violations=%d inconclusive=%d wall=%.1fs exit=%d\n",
		prop, tier, len(items), totalPaths, totalInstrs, solver.Queries, validated, violations, len(inconclusive), time.Since(t0).Seconds(), exit)
	return exit
}

func round2(f float64) float64 { return float64(int(f*100)) / 100 }

func firstLine(s string) string {
	if i := strings.IndexByte(s, '\n'); i >= 0 {
		return s[:i]
	}
	return s
}

var propLevel = map[string]string{"C17": "other"}

var propExplanation = map[string]string{
	"C17": "Relational check on a structural size measure, decided by bounded symbolic execution of the real builder: for symbolic key sets K (n<=3) and a concrete prefix P, an upper-bound measure of the proto3 size of the message built from K and from P+K differs by at most 24 bytes; for adversarial concrete families (n=64/256) the measure is <= 8n+256. The real serialized length is a fact about golang/protobuf and is asserted only on the natively replayed witnesses. The linear bound for n up to 10^5 is outside the claim (at solver-reachable n the constant dominates).",
}

var outsideClaim = map[string][]string{
	"C01": {"fully symbolic key sets with n>3 (quick) / n>4 (thorough)", "key sets at scale other than the listed skeletons", "~10^5 keys", "zero-width value equality"},
	"C02": {"as C01"},
	"C03": {"as C01; queries longer than the listed lq"},
	"C04": {"fully symbolic tries with n>=2 outside the 6-letter alphabet", "stack depth beyond the listed skeletons"},
	"C05": {"byte identity / proto.Size / re-marshal byte equality in general (asserted on native replays only): golang/protobuf's encoder is reflection+unsafe table code (A-PB)", "proto.Marshal/Unmarshal called on *SlimTrie"},
	"C07": {"cuts inside real protobuf bodies are represented by opaque bodies", "version strings longer than the listed lv (except the 16-byte unterminated case in thorough)"},
	"C08": {"n>3 symbolic keys (quick)", "run lengths other than the listed ones"},
	"C09": {"as C01"},
	"C10": {"as C01; queries longer than the listed lq"},
	"C11": {"interleavings as such (replaced by the write-set sufficient condition)", "golang/protobuf Marshal (writes XXX_sizecache) is trusted"},
	"C12": {"block sizes above 3 (blocks are models of <=3 symbolic offsets; 4 in thorough)"},
	"C13": {"as C01"},
	"C14": {"as C01"},
	"C15": {"TypeEncoder byte layout (encoding/binary is reflection-driven; only a model could be checked)", "String16 lengths other than the listed ones"},
	"C16": {"generic Array decoding rests on the encoding/binary layout model", "indexes other than 64*w+s for the listed words w", "n>3 indexes"},
	"C17": {"the linear bound for large n", "exact proto.Size"},
	"C18": {"as C01; legacy-loaded KeyCnt is checked under C06"},
	"C19": {"exact rendered text", "short-node table sizes 4..10 (need >1000 keys)"},
	"C20": {"legacy streams (covered under C06 when claimed)"},
}

func assumptionsFor(prop string) []string {
	a := []string{"Go semantics as implemented by symgo (path-forking symbolic executor over go/ssa)", "go/ssa translation of the source", "z3 4.8.12 (unknowns retried on z3 5.1.0 / cvc5 1.0.3)", "intercepts listed in DESIGN.md §4 (see stubs_hit for those exercised)"}
	return append(a, extraAssumptions[prop]...)
}

var extraAssumptions = map[string][]string{}

func replayFile(path string) int {
	b, err := os.ReadFile(path)
	if err != nil {
		fmt.Fprintln(os.Stderr, err)
		return 2
	}
	var rf ReplayFile
	if err := json.Unmarshal(b, &rf); err != nil {
		fmt.Fprintln(os.Stderr, err)
		return 2
	}
	ov, err := buildOverlay()
	if err != nil {
		fmt.Fprintln(os.Stderr, err)
		return 2
	}
	P := &Program{overlay: ov}
	logs, err := nativeReplay(P, rf.Pkg, []vCase{{Harness: rf.Harness, Params: rf.Params, Inputs: rf.Inputs}})
	if err != nil {
		fmt.Fprintln(os.Stderr, err)
		return 3
	}
	for _, l := range logs[0] {
		fmt.Println(l)
	}
	if reproduces(Violation{Kind: rf.Kind, Assertion: rf.Assertion}, logs[0]) {
		fmt.Printf("VIOLATION property=%s replay=%s\n", rf.Property, path)
		return 1
	}
	fmt.Println("does not reproduce on the current tree")
	return 0
}

var extraTest string

// runExtraTest runs a native-only validation test (e.g. the legacy writer models).
func runExtraTest(tmp string, repl map[string]string, pkg string) ([][]string, error) {
	ovb, _ := json.Marshal(map[string]interface{}{"Replace": repl})
	ovPath := filepath.Join(tmp, "overlay.json")
	os.WriteFile(ovPath, ovb, 0644)
	cmd := exec.Command("go", "test", "-tags", "verif", "-vet=off", "-count=1", "-v", "-timeout", "20m", "-run", "^"+extraTest+"$", "-overlay", ovPath, "./"+pkg)
	cmd.Dir = repoDir
	cmd.Env = append(os.Environ(), "GOFLAGS=-mod=mod", "GOPROXY=off", "GOSUMDB=off", "GOTOOLCHAIN=local")
	out, err := cmd.CombinedOutput()
	if err != nil {
		return nil, fmt.Errorf("%s failed: %s", extraTest, lastLines(string(out), 12))
	}
	var lines []string
	for _, l := range strings.Split(string(out), "\n") {
		if strings.HasPrefix(l, "VLEGACY") {
			lines = append(lines, l)
		}
	}
	return [][]string{lines}, nil
}

// selftest: translator validation on fixed differential harnesses (engine vs native build).
func selftest() int {
	noEvidence = true
	rc := 0
	for _, p := range []string{"DBG", "DBG2"} {
		if c := runProperty(p, "quick", 8); c != 0 {
			rc = c
		}
	}
	// at setup every harness file must compile against the tree (the degraded load is only for
	// changed trees at check time)
	if len(droppedHarness) > 0 {
		fmt.Println("selftest: harness files do not compile against /repo:", droppedHarness)
		return 3
	}
	// A-LW: the legacy writer models must reproduce every archived fixture
	ov, err := buildOverlay()
	if err != nil {
		fmt.Println("selftest:", err)
		return 3
	}
	extraTest = "TestVerifLegacyModels"
	logs, err := nativeReplay(&Program{overlay: ov}, "trie", []vCase{{}})
	extraTest = ""
	if err != nil {
		fmt.Println("selftest: legacy writer models (A-LW) do not validate:", err)
		rc = 3
	} else if len(logs) > 0 {
		for _, l := range logs[0] {
			fmt.Println(l)
		}
	}
	if rc == 0 {
		fmt.Println("selftest ok")
	}
	return rc
}
