package main

// SMT solver back end: one persistent `z3 -in` process per worker, SMT-LIB2 over a
// pipe, push/pop mirrored to the path condition.  No set-logic (see DESIGN §3.6); any
// "(error" line makes the current query inconclusive.

import (
	"bufio"
	"fmt"
	"io"
	"os"
	"os/exec"
	"strconv"
	"strings"
	"sync/atomic"
	"time"
)

type SatResult int

const (
	Unsat SatResult = iota
	Sat
	Unknown
)

func (r SatResult) String() string { return [...]string{"unsat", "sat", "unknown"}[r] }

type SolverStats struct {
	Queries  int
	Sat      int
	Unsat    int
	Unknown  int
	WallS    float64
	Retried  int
	Crossed  int
	Disagree int
	Errors   int
}

type Solver struct {
	tb       *TB
	bin      string
	args     []string
	cmd      *exec.Cmd
	in       io.WriteCloser
	out      *bufio.Reader
	level    int
	emitted  [][]*Term
	lines    [][]string
	stats    SolverStats
	timeoutS int
	lastErr  string
	crossN   int // cross-check every crossN-th query (0 = never)
	logf     *os.File
}

func NewSolver(tb *TB, timeoutS int) (*Solver, error) {
	s := &Solver{tb: tb, bin: solverBin(), timeoutS: timeoutS}
	s.args = []string{"-in", fmt.Sprintf("-t:%d", timeoutS*1000)}
	if err := s.start(); err != nil {
		return nil, err
	}
	return s, nil
}

func (s *Solver) start() error {
	s.cmd = exec.Command(s.bin, s.args...)
	in, err := s.cmd.StdinPipe()
	if err != nil {
		return err
	}
	out, err := s.cmd.StdoutPipe()
	if err != nil {
		return err
	}
	s.cmd.Stderr = nil
	if err := s.cmd.Start(); err != nil {
		return err
	}
	s.in = in
	if p := os.Getenv("VERIF_SMTLOG"); p != "" {
		s.logf, _ = os.Create(fmt.Sprintf("%s.%d", p, s.cmd.Process.Pid))
	}
	s.out = bufio.NewReaderSize(out, 1<<16)
	s.level = 0
	s.emitted = [][]*Term{nil}
	s.lines = [][]string{nil}
	s.send(smtPrelude)
	return nil
}

func (s *Solver) Close() {
	if s.cmd != nil {
		s.in.Close()
		s.cmd.Process.Kill()
		s.cmd.Wait()
		s.cmd = nil
	}
}

func (s *Solver) send(line string) {
	s.lines[s.level] = append(s.lines[s.level], line)
	if s.logf != nil {
		io.WriteString(s.logf, line+"\n")
	}
	io.WriteString(s.in, line)
	io.WriteString(s.in, "\n")
}

func (s *Solver) raw(line string) {
	if s.logf != nil {
		io.WriteString(s.logf, line+"\n")
	}
	io.WriteString(s.in, line)
	io.WriteString(s.in, "\n")
}

func (s *Solver) Push() {
	s.raw("(push 1)")
	s.level++
	s.emitted = append(s.emitted, nil)
	s.lines = append(s.lines, nil)
}

func (s *Solver) PopTo(level int) {
	if level >= s.level {
		return
	}
	n := s.level - level
	s.raw(fmt.Sprintf("(pop %d)", n))
	for l := s.level; l > level; l-- {
		for _, t := range s.emitted[l] {
			t.emitLvl = -1
		}
	}
	s.emitted = s.emitted[:level+1]
	s.lines = s.lines[:level+1]
	s.level = level
}

// emit makes sure t (and everything below it) is defined in the solver.
func (s *Solver) emit(t *Term) {
	if t.op == OConst || t.emitLvl >= 0 {
		return
	}
	if t.a != nil {
		s.emit(t.a)
	}
	if t.b != nil {
		s.emit(t.b)
	}
	if t.c != nil {
		s.emit(t.c)
	}
	if t.op == OVar {
		s.send(fmt.Sprintf("(declare-const %s %s)", t.ref(), sortOf(t.w)))
	} else {
		s.send(fmt.Sprintf("(define-fun %s () %s %s)", t.ref(), sortOf(t.w), t.body()))
	}
	t.emitLvl = int32(s.level)
	s.emitted[s.level] = append(s.emitted[s.level], t)
}

func (s *Solver) Assert(t *Term) {
	if !t.IsBool() {
		panic("assert of non-bool")
	}
	s.emit(t)
	s.send(fmt.Sprintf("(assert %s)", t.ref()))
}

func (s *Solver) readLine() (string, error) {
	line, err := s.out.ReadString('\n')
	return strings.TrimSpace(line), err
}

// Check runs check-sat on the current assertion stack.
// restart replaces a solver process that had to be killed and replays the transcript (the
// lines sent per push level), so that the mirror of the path condition is intact again.
func (s *Solver) restart() error {
	if s.cmd != nil {
		s.in.Close()
		s.cmd.Process.Kill()
		s.cmd.Wait()
	}
	s.cmd = exec.Command(s.bin, s.args...)
	in, err := s.cmd.StdinPipe()
	if err != nil {
		return err
	}
	out, err := s.cmd.StdoutPipe()
	if err != nil {
		return err
	}
	if err := s.cmd.Start(); err != nil {
		return err
	}
	s.in = in
	s.out = bufio.NewReaderSize(out, 1<<16)
	for l, lv := range s.lines {
		if l > 0 {
			s.raw("(push 1)")
		}
		for _, ln := range lv {
			s.raw(ln)
		}
	}
	return nil
}

func (s *Solver) Check() SatResult {
	t0 := time.Now()
	s.raw("(check-sat)")
	res := Unknown
	errSeen := false
	// hard watchdog: the solver's own (soft) time limit is not honoured in every phase; a query
	// that is still running well after it is killed and answered `unknown` (never a pass)
	var killed int32
	proc := s.cmd.Process
	wd := time.AfterFunc(time.Duration(s.timeoutS*3+20)*time.Second, func() {
		atomic.StoreInt32(&killed, 1)
		proc.Kill()
	})
	defer wd.Stop()
	for {
		line, err := s.readLine()
		if err != nil && atomic.LoadInt32(&killed) == 1 {
			s.stats.Errors++
			if rerr := s.restart(); rerr != nil {
				panic(abortErr{"solver killed by the watchdog and could not be restarted: " + rerr.Error()})
			}
			res = Unknown
			break
		}
		if err != nil {
			s.lastErr = "solver died: " + err.Error()
			s.stats.Errors++
			panic(abortErr{s.lastErr})
		}
		if line == "" {
			continue
		}
		if strings.HasPrefix(line, "(error") {
			s.lastErr = line
			s.stats.Errors++
			errSeen = true
			continue
		}
		switch line {
		case "sat":
			res = Sat
		case "unsat":
			res = Unsat
		case "unknown", "timeout":
			res = Unknown
		default:
			continue
		}
		break
	}
	if errSeen {
		panic(abortErr{"solver error: " + s.lastErr})
	}
	s.stats.Queries++
	s.stats.WallS += time.Since(t0).Seconds()
	if s.logf != nil {
		fmt.Fprintf(s.logf, "; query %d took %.1f ms level %d -> %v\n", s.stats.Queries, time.Since(t0).Seconds()*1000, s.level, res)
	}
	if res == Unknown && s.lastErr == "" {
		// retry on the other solvers with the full transcript
		r2 := s.oneShot(otherZ3(s.bin), []string{"-in", fmt.Sprintf("-T:%d", s.timeoutS*3)}, "")
		s.stats.Retried++
		if r2 == Unknown {
			r2 = s.oneShot("cvc5", []string{"--lang=smt2", fmt.Sprintf("--tlimit=%d", s.timeoutS*3000)}, "")
		}
		if r2 != Unknown && r2 != Sat {
			res = r2
		}
		// a Sat from another solver is usable only without a model; treat as Unknown→callers keep branch
		if r2 == Sat {
			res = Unknown
		}
	}
	switch res {
	case Sat:
		s.stats.Sat++
	case Unsat:
		s.stats.Unsat++
	default:
		s.stats.Unknown++
	}
	if s.crossN > 0 && res != Unknown && s.stats.Queries%s.crossN == 0 {
		r2 := s.oneShot(otherZ3(s.bin), []string{"-in", fmt.Sprintf("-T:%d", s.timeoutS*3)}, "")
		s.stats.Crossed++
		if r2 != Unknown && r2 != res {
			s.stats.Disagree++
			s.lastErr = fmt.Sprintf("solver disagreement: z3=%v z3-new=%v", res, r2)
			res = Unknown
		}
	}
	return res
}

// oneShot replays the whole transcript (plus an optional extra assertion line) to a fresh
// process of another solver and returns its verdict.
func (s *Solver) oneShot(bin string, args []string, extra string) SatResult {
	cmd := exec.Command(bin, args...)
	var sb strings.Builder
	for _, lv := range s.lines {
		for _, ln := range lv {
			sb.WriteString(ln)
			sb.WriteString("\n")
		}
	}
	if extra != "" {
		sb.WriteString(extra)
		sb.WriteString("\n")
	}
	sb.WriteString("(check-sat)\n")
	cmd.Stdin = strings.NewReader(sb.String())
	out, _ := cmd.Output()
	for _, line := range strings.Split(string(out), "\n") {
		line = strings.TrimSpace(line)
		if strings.HasPrefix(line, "(error") {
			return Unknown
		}
		switch line {
		case "sat":
			return Sat
		case "unsat":
			return Unsat
		}
	}
	return Unknown
}

// Model fetches the values of all declared variables after a Sat answer.
func (s *Solver) Model() Model {
	m := Model{}
	var names []string
	byName := map[string]*Term{}
	for _, v := range s.tb.vars {
		if v.emitLvl >= 0 {
			names = append(names, v.ref())
			byName[v.name] = v
		}
	}
	if len(names) == 0 {
		return m
	}
	s.raw("(get-value (" + strings.Join(names, " ") + "))")
	// read until parens balance
	var sb strings.Builder
	depth := 0
	started := false
	inBar := false
	for {
		line, err := s.out.ReadString('\n')
		if err != nil {
			s.lastErr = "solver died in get-value"
			return m
		}
		for _, ch := range line {
			if ch == '|' {
				inBar = !inBar
			}
			if inBar {
				continue
			}
			if ch == '(' {
				depth++
				started = true
			} else if ch == ')' {
				depth--
			}
		}
		sb.WriteString(line)
		if started && depth <= 0 {
			break
		}
	}
	txt := sb.String()
	if strings.HasPrefix(strings.TrimSpace(txt), "(error") {
		s.lastErr = strings.TrimSpace(txt)
		s.stats.Errors++
		return m
	}
	parseGetValue(txt, func(name, val string) {
		v, ok := byName[name]
		if !ok {
			return
		}
		m[v.id] = parseSMTValue(val)
	})
	return m
}

func parseSMTValue(val string) uint64 {
	val = strings.TrimSpace(val)
	switch {
	case val == "true":
		return 1
	case val == "false":
		return 0
	case strings.HasPrefix(val, "#x"):
		u, _ := strconv.ParseUint(val[2:], 16, 64)
		return u
	case strings.HasPrefix(val, "#b"):
		u, _ := strconv.ParseUint(val[2:], 2, 64)
		return u
	case strings.HasPrefix(val, "(_ bv"):
		f := strings.Fields(val[5:])
		u, _ := strconv.ParseUint(f[0], 10, 64)
		return u
	}
	return 0
}

// parseGetValue parses "((name value) (name value) ...)".
func parseGetValue(txt string, f func(name, val string)) {
	i := 0
	n := len(txt)
	skipWS := func() {
		for i < n && (txt[i] == ' ' || txt[i] == '\n' || txt[i] == '\t' || txt[i] == '\r') {
			i++
		}
	}
	skipWS()
	if i >= n || txt[i] != '(' {
		return
	}
	i++
	for {
		skipWS()
		if i >= n || txt[i] == ')' {
			return
		}
		if txt[i] != '(' {
			return
		}
		i++
		skipWS()
		// name
		var name string
		if txt[i] == '|' {
			j := strings.IndexByte(txt[i+1:], '|')
			name = txt[i+1 : i+1+j]
			i = i + 1 + j + 1
		} else {
			j := i
			for j < n && txt[j] != ' ' && txt[j] != '\n' {
				j++
			}
			name = txt[i:j]
			i = j
		}
		skipWS()
		// value: atom or parenthesised
		var val string
		if txt[i] == '(' {
			d := 0
			j := i
			for j < n {
				if txt[j] == '(' {
					d++
				} else if txt[j] == ')' {
					d--
					if d == 0 {
						j++
						break
					}
				}
				j++
			}
			val = txt[i:j]
			i = j
		} else {
			j := i
			for j < n && txt[j] != ')' && txt[j] != ' ' && txt[j] != '\n' {
				j++
			}
			val = txt[i:j]
			i = j
		}
		skipWS()
		if i < n && txt[i] == ')' {
			i++
		}
		f(name, val)
	}
}

type abortErr struct{ msg string }

// solverBin: z3 5.1.0 (z3-new) is the primary back end (measured ~10x faster than 4.8.12 on
// the builder's formulas); VERIF_SOLVER=z3 selects 4.8.12.
func solverBin() string {
	if b := os.Getenv("VERIF_SOLVER"); b != "" {
		return b
	}
	return "z3-new"
}

func otherZ3(bin string) string {
	if bin == "z3" {
		return "z3-new"
	}
	return "z3"
}
