package main

// Harness intrinsics (v* functions declared in the harness files).  Their native bodies
// are used only for replay; the engine intercepts them by name.

import (
	"fmt"
	"go/types"
	"sort"
	"strings"

	"golang.org/x/tools/go/ssa"
)

func (m *Machine) intrinsic(fn *ssa.Function) interceptFn {
	name := fn.Name()
	if len(name) < 2 || name[0] != 'v' || name[1] < 'A' || name[1] > 'Z' || fn.Signature.Recv() != nil {
		return nil
	}
	if ic, ok := intrinsicTab[name]; ok {
		return ic
	}
	return nil
}

func strArg(v value) string {
	s := v.(Str)
	if !s.IsConc() {
		abortf("intrinsic needs a concrete string argument")
	}
	return s.s
}

func (m *Machine) inputVar(tag string, w uint8, kind string) *Term {
	n := 0
	for _, in := range m.inputs {
		if len(in.Name) > len(tag) && in.Name[:len(tag)] == tag && in.Name[len(tag)] == '#' {
			n++
		}
	}
	name := fmt.Sprintf("%s#%d", tag, n)
	t := m.tb.Var(name, w)
	m.inputs = append(m.inputs, inputRec{Name: name, Kind: kind, t: t})
	return t
}

var intrinsicTab map[string]interceptFn

func init() {
	scalar := func(w uint8, kind string) interceptFn {
		return func(m *Machine, f *Frame, a []value) (value, bool) {
			return m.inputVar(strArg(a[0]), w, kind), true
		}
	}
	intrinsicTab = map[string]interceptFn{
		"vByte": scalar(8, "u8"), "vU8": scalar(8, "u8"), "vU16": scalar(16, "u16"), "vU32": scalar(32, "u32"), "vU64": scalar(64, "u64"),
		"vI8": scalar(8, "i8"), "vI16": scalar(16, "i16"), "vI32": scalar(32, "i32"), "vI64": scalar(64, "i64"), "vInt": scalar(64, "i64"),
		"vBool": func(m *Machine, f *Frame, a []value) (value, bool) {
			return m.inputVar(strArg(a[0]), 0, "bool"), true
		},
		"vBytes": func(m *Machine, f *Frame, a []value) (value, bool) {
			tag := strArg(a[0])
			n := m.concInt(a[1].(*Term), true, "vBytes")
			bs := make([]*Term, n)
			for i := range bs {
				bs[i] = m.inputVar(tag, 8, "u8")
			}
			if n == 0 {
				return Slice{obj: m.newObject(0, "vBytes"), esz: 1}, true
			}
			return m.newByteSlice(bs, "vBytes:"+tag), true
		},
		"vString": func(m *Machine, f *Frame, a []value) (value, bool) {
			tag := strArg(a[0])
			n := m.concInt(a[1].(*Term), true, "vString")
			if n == 0 {
				return Str{}, true
			}
			bs := make([]*Term, n)
			for i := range bs {
				bs[i] = m.inputVar(tag, 8, "u8")
			}
			return Str{b: bs}, true
		},
		"vParam": func(m *Machine, f *Frame, a []value) (value, bool) {
			name := strArg(a[0])
			v, ok := m.params[name]
			if !ok {
				abortf("harness parameter %q not supplied", name)
			}
			return m.tb.Const(64, uint64(int64(v))), true
		},
		"vParamDef": func(m *Machine, f *Frame, a []value) (value, bool) {
			name := strArg(a[0])
			v, ok := m.params[name]
			if !ok {
				return a[1], true
			}
			return m.tb.Const(64, uint64(int64(v))), true
		},
		"vChoice": func(m *Machine, f *Frame, a []value) (value, bool) {
			n := m.concInt(a[0].(*Term), true, "vChoice")
			i := m.chooseN(n)
			if n > 1 {
				// the chosen alternative is an input of the native replay ("choice#k")
				k := 0
				for _, in := range m.inputs {
					if strings.HasPrefix(in.Name, "choice#") {
						k++
					}
				}
				m.inputs = append(m.inputs, inputRec{Name: fmt.Sprintf("choice#%d", k), Kind: "choice", t: m.tb.Const(64, uint64(i))})
			}
			return m.tb.Const(64, uint64(i)), true
		},
		"vConcrete": func(m *Machine, f *Frame, a []value) (value, bool) {
			t := a[0].(*Term)
			return m.tb.Const(t.w, m.concretize(t, "vConcrete")), true
		},
		"vAssume": func(m *Machine, f *Frame, a []value) (value, bool) {
			c := a[0].(*Term)
			// an unsatisfiable assumption ends the path here (it is not a path of the harness)
			if ok, _ := m.feasible(c); !ok {
				panic(killPath{"assumption infeasible"})
			}
			m.assume(c)
			return nil, true
		},
		"vAssert": func(m *Machine, f *Frame, a []value) (value, bool) {
			m.assertTerm(a[0].(*Term), strArg(a[1]))
			return nil, true
		},
		"vReach": func(m *Machine, f *Frame, a []value) (value, bool) {
			id := strArg(a[0])
			m.reached[id]++
			if m.twin && id == "end" {
				// vacuity twin: assert(false) here must come back violated
				if mod := m.currentModel(); mod != nil {
					m.recordViolationModel("assert", "__twin", "reachability witness", mod)
				}
			}
			return nil, true
		},
		"vObserve": func(m *Machine, f *Frame, a []value) (value, bool) {
			m.obs = append(m.obs, obsRec{id: strArg(a[0]), val: m.snapshot(a[1])})
			return nil, true
		},
		"vB2I": func(m *Machine, f *Frame, a []value) (value, bool) {
			return m.tb.Ite(a[0].(*Term), m.tb.Const(64, 1), m.tb.Const(64, 0)), true
		},
		"vIte": func(m *Machine, f *Frame, a []value) (value, bool) {
			return m.tb.Ite(a[0].(*Term), a[1].(*Term), a[2].(*Term)), true
		},
		"vAnd": func(m *Machine, f *Frame, a []value) (value, bool) {
			return m.tb.And(a[0].(*Term), a[1].(*Term)), true
		},
		"vOr": func(m *Machine, f *Frame, a []value) (value, bool) {
			return m.tb.Or(a[0].(*Term), a[1].(*Term)), true
		},
		"vNot": func(m *Machine, f *Frame, a []value) (value, bool) {
			return m.tb.Not(a[0].(*Term)), true
		},
		"vImplies": func(m *Machine, f *Frame, a []value) (value, bool) {
			return m.tb.Or(m.tb.Not(a[0].(*Term)), a[1].(*Term)), true
		},
		"vStrEq": func(m *Machine, f *Frame, a []value) (value, bool) {
			return m.strEq(a[0].(Str), a[1].(Str)), true
		},
		"vStrLt": func(m *Machine, f *Frame, a []value) (value, bool) {
			return m.strLt(a[0].(Str), a[1].(Str)), true
		},
		"vBytesEq": func(m *Machine, f *Frame, a []value) (value, bool) {
			x, y := a[0].(Slice), a[1].(Slice)
			return m.strEq(mkStr(m.sliceBytes(x)), mkStr(m.sliceBytes(y))), true
		},
		"vCatch": func(m *Machine, f *Frame, a []value) (value, bool) {
			fv := a[0].(Func)
			in := f.block.Instrs[f.ip]
			var res ssa.Value
			if v, ok := in.(ssa.Value); ok {
				res = v
			}
			m.pushFrame(fv.fn, nil, fv.env, res, fkCatch)
			return pushedFrame, true
		},
		"vConcurrently": func(m *Machine, f *Frame, a []value) (value, bool) {
			fv := a[0].(Func)
			return m.callCont(fv.fn, nil, fv.env, func(m *Machine, r value) value { return nil }), true
		},
		"vDeepEqual": func(m *Machine, f *Frame, a []value) (value, bool) {
			return m.deepEqual(a[0], a[1], 0, map[[2]*Object]bool{}), true
		},
		"vSameWire": func(m *Machine, f *Frame, a []value) (value, bool) {
			return m.codecSameWire(a[0].(Iface), a[1].(Iface)), true
		},
		"vMapOrderNondet": func(m *Machine, f *Frame, a []value) (value, bool) {
			old := m.mapOrderNondet
			m.undoLog(func() { m.mapOrderNondet = old })
			m.mapOrderNondet = a[0].(*Term).k != 0
			return nil, true
		},
		"vMonitor": func(m *Machine, f *Frame, a []value) (value, bool) {
			// mark every object reachable from the argument as monitored
			seen := map[*Object]bool{}
			m.reach(a[0], seen, map[*MapObj]bool{})
			for o := range seen {
				if o.mon == 0 {
					o := o
					o.mon = 1
					m.undoLog(func() { o.mon = 0 })
				}
			}
			return nil, true
		},
		"vUnmonitor": func(m *Machine, f *Frame, a []value) (value, bool) {
			seen := map[*Object]bool{}
			m.reach(a[0], seen, map[*MapObj]bool{})
			for o := range seen {
				if o.mon != 0 {
					o := o
					old := o.mon
					o.mon = 0
					m.undoLog(func() { o.mon = old })
				}
			}
			return nil, true
		},
		"vWrites": func(m *Machine, f *Frame, a []value) (value, bool) {
			return m.tb.Const(64, uint64(len(m.monWrites))), true
		},
		"vReachable": func(m *Machine, f *Frame, a []value) (value, bool) {
			// is any object reachable from a[1] also reachable from a[0]?
			s0 := map[*Object]bool{}
			m.reach(a[0], s0, map[*MapObj]bool{})
			s1 := map[*Object]bool{}
			m.reach(a[1], s1, map[*MapObj]bool{})
			for o := range s1 {
				if s0[o] && len(o.cells) > 0 {
					return m.tb.True, true
				}
			}
			return m.tb.False, true
		},
		"vNativeReps": func(m *Machine, f *Frame, a []value) (value, bool) {
			// repetitions only the native replay needs (e.g. rebuilds under random map order)
			return m.tb.Const(64, 1), true
		},
		"vNativeTrue": func(m *Machine, f *Frame, a []value) (value, bool) {
			// a condition only the native replay can evaluate (e.g. byte identity of real protobuf output)
			return m.tb.True, true
		},
		"vCodecUnrecognised": func(m *Machine, f *Frame, a []value) (value, bool) {
			return m.tb.Const(64, uint64(m.codecUnrecognised)), true
		},
		"vHavocBytes": func(m *Machine, f *Frame, a []value) (value, bool) {
			// overwrite every byte of the slice with fresh symbolic bytes
			s := a[0].(Slice)
			tag := strArg(a[1])
			vs := make([]*Term, s.len)
			for i := range vs {
				vs[i] = m.inputVar(tag, 8, "u8")
			}
			for i := range vs {
				m.write(s.obj, s.off+i, vs[i])
			}
			return nil, true
		},
	}
}

// snapshot captures an observed value (byte slices are copied).
func (m *Machine) snapshot(v value) value {
	switch x := v.(type) {
	case Iface:
		return Iface{t: x.t, v: m.snapshot(x.v)}
	case Slice:
		if x.esz == 1 {
			cp := make(Agg, x.len)
			if x.len > 0 {
				copy(cp, x.obj.cells[x.off:x.off+x.len])
			}
			if x.obj == nil {
				return Agg(nil)
			}
			return cp
		}
	}
	return v
}

func (m *Machine) checkSat(c *Term) (SatResult, Model) {
	if c.IsConst() {
		if c.k != 0 {
			// a model of the *current* path condition (the cached one may predate a fork)
			return Sat, m.currentModel()
		}
		return Unsat, nil
	}
	if v, ok := m.fact(c); ok && !v {
		return Unsat, nil
	}
	m.checkItemBudget()
	lvl := m.sol.level
	m.sol.Push()
	m.sol.Assert(c)
	r := m.sol.Check()
	var mod Model
	if r == Sat {
		mod = m.sol.Model()
	}
	m.sol.PopTo(lvl)
	return r, mod
}

func (m *Machine) assertTerm(c *Term, id string) {
	st := m.assertStats[id]
	if st == nil {
		st = &assertStat{}
		m.assertStats[id] = st
	}
	st.Paths++
	if c.IsConst() && c.k != 0 {
		st.Discharged++
		return
	}
	r, mod := m.checkSat(m.tb.Not(c))
	switch r {
	case Unsat:
		st.Discharged++
		m.addFact(c, true)
		return
	case Unknown:
		abortf("solver returned unknown on assertion %s (%s)", id, m.sol.lastErr)
	}
	st.Violated++
	m.recordViolationModel("assert", id, "assertion can fail", mod)
	// continue on the passing side, if any
	m.assume(c)
}

func (m *Machine) currentModel() Model {
	if m.modelOK {
		return m.model
	}
	r := m.sol.Check()
	if r == Sat {
		m.model, m.modelOK = m.sol.Model(), true
		return m.model
	}
	if r == Unsat {
		panic(killPath{"pc unsat"})
	}
	return nil
}

func (m *Machine) recordViolation(kind, id, msg string) {
	mod := m.currentModel()
	if mod == nil {
		abortf("cannot obtain a model for %s violation %s", kind, id)
	}
	m.recordViolationModel(kind, id, msg, mod)
}

func (m *Machine) recordViolationModel(kind, id, msg string, mod Model) {
	if len(m.violations) >= m.cfg.MaxViolations {
		return
	}
	// one record per (assertion id, kind) per work item is enough
	for _, v := range m.violations {
		if v.Assertion == id && v.Kind == kind {
			return
		}
	}
	in := map[string]uint64{}
	for _, r := range m.inputs {
		in[r.Name] = m.tb.Eval(r.t, mod)
	}
	ps := map[string]int{}
	for k, v := range m.params {
		ps[k] = v
	}
	m.violations = append(m.violations, Violation{Harness: m.harness, Assertion: id, Params: ps, Inputs: in, Msg: msg, Kind: kind})
}

func (m *Machine) takeWitness() {
	mod := m.diverseModel()
	if mod == nil {
		return
	}
	w := Witness{Inputs: map[string]uint64{}, Params: map[string]int{}}
	for _, r := range m.inputs {
		w.Inputs[r.Name] = m.tb.Eval(r.t, mod)
	}
	for k, v := range m.params {
		w.Params[k] = v
	}
	for _, o := range m.obs {
		w.Obs = append(w.Obs, o.id+" "+m.formatObs(o.val, nil, mod))
	}
	m.witnesses = append(m.witnesses, w)
}

// diverseModel returns a model of the current path condition that is not simply the
// solver's all-zero default: random assignments are tried first (checked against the
// path condition by evaluation), then the solver is asked with some inputs pinned to
// random values.
func (m *Machine) diverseModel() Model {
	rnd := func() uint64 {
		m.rng = m.rng*6364136223846793005 + 1442695040888963407
		x := m.rng >> 11
		switch x % 5 {
		case 0:
			return x >> 8 & 0xff
		case 1:
			return ^uint64(0) - (x >> 8 & 3)
		case 2:
			return 0x80 + (x>>8)&0x7f
		}
		return x
	}
	sat := func(mod Model) bool {
		for _, c := range m.pc {
			if m.tb.Eval(c, mod) == 0 {
				return false
			}
		}
		return true
	}
	for try := 0; try < 24; try++ {
		mod := Model{}
		for _, r := range m.inputs {
			mod[r.t.id] = rnd() & maskW(r.t.w)
		}
		if sat(mod) {
			return mod
		}
	}
	// ask the solver with a few inputs pinned
	if len(m.inputs) > 0 {
		for try := 0; try < 3; try++ {
			lvl := m.sol.level
			m.sol.Push()
			for k := 0; k < 1+len(m.inputs)/3; k++ {
				r := m.inputs[int(rnd()%uint64(len(m.inputs)))]
				if r.t.w == 0 {
					continue
				}
				m.sol.Assert(m.tb.Eq(r.t, m.tb.Const(r.t.w, rnd())))
			}
			res := m.sol.Check()
			var mod Model
			if res == Sat {
				mod = m.sol.Model()
			}
			m.sol.PopTo(lvl)
			if mod != nil {
				return mod
			}
		}
	}
	return m.currentModel()
}

// formatObs renders an observed value under a model the same way the native vObserve does.
func (m *Machine) formatObs(v value, t types.Type, mod Model) string {
	switch x := v.(type) {
	case nil:
		return "nil"
	case Iface:
		if x.t == nil {
			return "nil"
		}
		return m.formatObs(x.v, x.t, mod)
	case *Term:
		val := m.tb.Eval(x, mod)
		if x.w == 0 {
			return fmt.Sprintf("%v", val != 0)
		}
		signed := true
		if t != nil {
			_, s, ok := intInfo(t)
			if ok {
				signed = s
			}
		}
		if signed {
			return fmt.Sprintf("%d", sext64(val, x.w))
		}
		return fmt.Sprintf("%d", val)
	case Str:
		var sb strings.Builder
		for i := 0; i < x.Len(); i++ {
			sb.WriteByte(byte(m.tb.Eval(x.At(m.tb, i), mod)))
		}
		return fmt.Sprintf("%q", sb.String())
	case Agg:
		if x == nil {
			return "bytes:nil"
		}
		var sb strings.Builder
		for _, c := range x {
			t, ok := c.(*Term)
			if !ok {
				return fmt.Sprintf("<%T>", c)
			}
			fmt.Fprintf(&sb, "%02x", byte(m.tb.Eval(t, mod)))
		}
		return "bytes:" + sb.String()
	case Ptr:
		if x.obj == nil {
			return "nilptr"
		}
		return "ptr"
	}
	return fmt.Sprintf("<%T>", v)
}

// reach collects the objects reachable from v.
func (m *Machine) reach(v value, seen map[*Object]bool, seenM map[*MapObj]bool) {
	switch x := v.(type) {
	case Ptr:
		m.reachObj(x.obj, seen, seenM)
	case SymPtr:
		m.reachObj(x.obj, seen, seenM)
	case Slice:
		m.reachObj(x.obj, seen, seenM)
	case Iface:
		m.reach(x.v, seen, seenM)
	case Agg:
		for _, c := range x {
			m.reach(c, seen, seenM)
		}
	case Tuple:
		for _, c := range x {
			m.reach(c, seen, seenM)
		}
	case Func:
		for _, c := range x.env {
			m.reach(c, seen, seenM)
		}
	case *MapObj:
		if x == nil || seenM[x] {
			return
		}
		seenM[x] = true
		for i := range x.keys {
			if x.live[i] {
				m.reach(x.keys[i], seen, seenM)
				m.reach(x.vals[i], seen, seenM)
			}
		}
	}
}

func (m *Machine) reachObj(o *Object, seen map[*Object]bool, seenM map[*MapObj]bool) {
	if o == nil || seen[o] {
		return
	}
	seen[o] = true
	if o.aliasOf != nil {
		m.reachObj(o.aliasOf, seen, seenM)
	}
	for _, c := range o.cells {
		switch c.(type) {
		case *Term, Str, nil, Float:
			continue
		}
		m.reach(c, seen, seenM)
	}
}

// deepEqual compares two values structurally: shapes concretely, scalars symbolically.
// Pointers are followed; nil-ness must agree; slices compare length and elements.
func (m *Machine) deepEqual(a, b value, depth int, seen map[[2]*Object]bool) *Term {
	tb := m.tb
	if depth > 200 {
		abortf("vDeepEqual: too deep")
	}
	switch x := a.(type) {
	case nil:
		return tb.Bool(isNilValue(b))
	case *Term:
		y, ok := b.(*Term)
		if !ok || x.w != y.w {
			return tb.False
		}
		return tb.Eq(x, y)
	case Str:
		y, ok := b.(Str)
		if !ok {
			return tb.False
		}
		return m.strEq(x, y)
	case Float:
		y, ok := b.(Float)
		return tb.Bool(ok && x == y)
	case Iface:
		y, ok := b.(Iface)
		if !ok {
			return tb.False
		}
		if x.t == nil || y.t == nil {
			return tb.Bool(x.t == nil && y.t == nil)
		}
		if !types.Identical(x.t, y.t) {
			return tb.False
		}
		return m.deepEqualT(x.v, y.v, x.t, depth+1, seen)
	}
	abortf("vDeepEqual needs interface-typed arguments at top level, got %T", a)
	return nil
}

func (m *Machine) deepEqualT(a, b value, t types.Type, depth int, seen map[[2]*Object]bool) *Term {
	tb := m.tb
	if depth > 200 {
		abortf("vDeepEqual: too deep")
	}
	if isReflValue(t) {
		return tb.True
	}
	switch u := t.Underlying().(type) {
	case *types.Basic:
		switch x := a.(type) {
		case *Term:
			return tb.Eq(x, b.(*Term))
		case Str:
			return m.strEq(x, b.(Str))
		case Float:
			return tb.Bool(x == b.(Float))
		case Ptr:
			return tb.Bool(x.obj == b.(Ptr).obj)
		}
	case *types.Pointer:
		x, y := a.(Ptr), b.(Ptr)
		if x.obj == nil || y.obj == nil {
			return tb.Bool(x.obj == nil && y.obj == nil)
		}
		if x.obj == y.obj && x.idx == y.idx {
			return tb.True
		}
		key := [2]*Object{x.obj, y.obj}
		if seen[key] {
			return tb.True
		}
		seen[key] = true
		return m.deepEqualT(m.loadT(x.obj, x.idx, u.Elem()), m.loadT(y.obj, y.idx, u.Elem()), u.Elem(), depth+1, seen)
	case *types.Slice:
		x, y := a.(Slice), b.(Slice)
		if (x.obj == nil) != (y.obj == nil) {
			return tb.False
		}
		if x.len != y.len {
			return tb.False
		}
		r := tb.True
		for i := 0; i < x.len; i++ {
			r = tb.And(r, m.deepEqualT(m.loadT(x.obj, x.off+i*x.esz, u.Elem()), m.loadT(y.obj, y.off+i*y.esz, u.Elem()), u.Elem(), depth+1, seen))
			if r == tb.False {
				return r
			}
		}
		return r
	case *types.Struct:
		x, y := a.(Agg), b.(Agg)
		r := tb.True
		off := 0
		for i := 0; i < u.NumFields(); i++ {
			ft := u.Field(i).Type()
			n := m.ncells(ft)
			var fa, fb value
			if isAggType(ft) {
				fa, fb = Agg(x[off:off+n]), Agg(y[off:off+n])
			} else {
				fa, fb = x[off], y[off]
			}
			off += n
			if strings.HasPrefix(u.Field(i).Name(), "XXX_") {
				continue
			}
			r = tb.And(r, m.deepEqualT(fa, fb, ft, depth+1, seen))
			if r == tb.False {
				return r
			}
		}
		return r
	case *types.Array:
		x, y := a.(Agg), b.(Agg)
		n := m.ncells(u.Elem())
		r := tb.True
		for i := 0; i < int(u.Len()); i++ {
			var fa, fb value
			if isAggType(u.Elem()) {
				fa, fb = Agg(x[i*n:(i+1)*n]), Agg(y[i*n:(i+1)*n])
			} else {
				fa, fb = x[i*n], y[i*n]
			}
			r = tb.And(r, m.deepEqualT(fa, fb, u.Elem(), depth+1, seen))
		}
		return r
	case *types.Interface:
		return m.deepEqual(a, b, depth+1, seen)
	case *types.Map:
		x, y := a.(*MapObj), b.(*MapObj)
		if x == nil || y == nil {
			return tb.Bool(x == nil && y == nil)
		}
		if x.n != y.n {
			return tb.False
		}
		abortf("vDeepEqual on non-empty maps is not supported")
	case *types.Signature:
		return tb.Bool(isNilValue(a) == isNilValue(b))
	}
	abortf("vDeepEqual: unsupported type %s (%T)", t, a)
	return nil
}

func sortedKeys(m map[string]int) []string {
	var ks []string
	for k := range m {
		ks = append(ks, k)
	}
	sort.Strings(ks)
	return ks
}
