package main

import (
	"fmt"
	"go/token"
	"go/types"
	"unicode/utf8"

	"golang.org/x/tools/go/ssa"
)

func (m *Machine) binop(op token.Token, xt types.Type, x, y value, yt types.Type) value {
	switch a := x.(type) {
	case *Term:
		b, ok := y.(*Term)
		if !ok {
			abortf("binop %v on term and %T", op, y)
		}
		if a.w == 0 {
			switch op {
			case token.EQL:
				return m.tb.Eq(a, b)
			case token.NEQ:
				return m.tb.Not(m.tb.Eq(a, b))
			case token.AND:
				return m.tb.And(a, b)
			case token.OR:
				return m.tb.Or(a, b)
			}
			abortf("bool binop %v", op)
		}
		_, signed, _ := intInfo(xt)
		return m.intBinop(op, a, b, signed, yt)
	case Str:
		b := y.(Str)
		switch op {
		case token.ADD:
			return m.strConcat(a, b)
		case token.EQL:
			return m.strEq(a, b)
		case token.NEQ:
			return m.tb.Not(m.strEq(a, b))
		case token.LSS:
			return m.strLt(a, b)
		case token.GTR:
			return m.strLt(b, a)
		case token.LEQ:
			return m.tb.Not(m.strLt(b, a))
		case token.GEQ:
			return m.tb.Not(m.strLt(a, b))
		}
	case Float:
		b := y.(Float)
		switch op {
		case token.ADD:
			return a + b
		case token.SUB:
			return a - b
		case token.MUL:
			return a * b
		case token.QUO:
			return a / b
		case token.EQL:
			return m.tb.Bool(a == b)
		case token.NEQ:
			return m.tb.Bool(a != b)
		case token.LSS:
			return m.tb.Bool(a < b)
		case token.LEQ:
			return m.tb.Bool(a <= b)
		case token.GTR:
			return m.tb.Bool(a > b)
		case token.GEQ:
			return m.tb.Bool(a >= b)
		}
	default:
		switch op {
		case token.EQL:
			return m.valEq(x, y)
		case token.NEQ:
			return m.tb.Not(m.valEq(x, y))
		}
	}
	abortf("unsupported binop %v on %T,%T", op, x, y)
	return nil
}

func (m *Machine) intBinop(op token.Token, a, b *Term, signed bool, yt types.Type) value {
	tb := m.tb
	switch op {
	case token.ADD:
		return tb.Add(a, b)
	case token.SUB:
		return tb.Sub(a, b)
	case token.MUL:
		return tb.Mul(a, b)
	case token.QUO, token.REM:
		nz := tb.Not(tb.Eq(b, tb.Const(b.w, 0)))
		if !m.branch(nz) {
			m.goPanicf("integer divide by zero at %s", m.posOf(m.curInstr))
		}
		switch {
		case op == token.QUO && signed:
			return tb.bin(OSdiv, a, b)
		case op == token.QUO:
			return tb.bin(OUdiv, a, b)
		case signed:
			return tb.bin(OSrem, a, b)
		default:
			return tb.bin(OUrem, a, b)
		}
	case token.AND:
		return tb.BAnd(a, b)
	case token.OR:
		return tb.BOr(a, b)
	case token.XOR:
		return tb.BXor(a, b)
	case token.AND_NOT:
		return tb.BAnd(a, tb.BNot(b))
	case token.SHL, token.SHR:
		// bring the shift count to a's width, saturating
		_, ysigned, _ := intInfo(yt)
		if ysigned && b.hi >= uint64(1)<<(b.w-1) {
			neg := tb.Slt(b, tb.Const(b.w, 0))
			if m.branch(neg) {
				m.goPanicf("negative shift amount at %s", m.posOf(m.curInstr))
			}
		}
		var cnt *Term
		if b.w > a.w {
			big := tb.Not(tb.Ult(b, tb.Const(b.w, uint64(a.w))))
			cnt = tb.Ite(big, tb.Const(a.w, uint64(a.w)), tb.Extract(b, 0, a.w))
		} else {
			cnt = tb.Zext(b, a.w)
		}
		if op == token.SHL {
			return tb.Shl(a, cnt)
		}
		if signed {
			return tb.Ashr(a, cnt)
		}
		return tb.Lshr(a, cnt)
	case token.EQL:
		return tb.Eq(a, b)
	case token.NEQ:
		return tb.Not(tb.Eq(a, b))
	case token.LSS:
		if signed {
			return tb.Slt(a, b)
		}
		return tb.Ult(a, b)
	case token.GTR:
		if signed {
			return tb.Slt(b, a)
		}
		return tb.Ult(b, a)
	case token.LEQ:
		if signed {
			return tb.Sle(a, b)
		}
		return tb.Ule(a, b)
	case token.GEQ:
		if signed {
			return tb.Sle(b, a)
		}
		return tb.Ule(b, a)
	}
	abortf("unsupported int binop %v", op)
	return nil
}

// ---------- strings ----------

func (m *Machine) strConcat(a, b Str) Str {
	if a.Len() == 0 {
		return b
	}
	if b.Len() == 0 {
		return a
	}
	if a.IsConc() && b.IsConc() {
		return Str{s: a.s + b.s}
	}
	r := make([]*Term, 0, a.Len()+b.Len())
	r = append(r, a.Bytes(m.tb)...)
	r = append(r, b.Bytes(m.tb)...)
	return Str{b: r}
}

func (m *Machine) strEq(a, b Str) *Term {
	if a.Len() != b.Len() {
		return m.tb.False
	}
	if a.IsConc() && b.IsConc() {
		return m.tb.Bool(a.s == b.s)
	}
	r := m.tb.True
	for i := a.Len() - 1; i >= 0; i-- {
		r = m.tb.And(m.tb.Eq(a.At(m.tb, i), b.At(m.tb, i)), r)
		if r == m.tb.False {
			return r
		}
	}
	return r
}

// strLt is plain bytewise (unsigned lexicographic) order; shorter prefix is smaller.
func (m *Machine) strLt(a, b Str) *Term {
	if a.IsConc() && b.IsConc() {
		return m.tb.Bool(a.s < b.s)
	}
	n := a.Len()
	if b.Len() < n {
		n = b.Len()
	}
	r := m.tb.Bool(a.Len() < b.Len())
	for i := n - 1; i >= 0; i-- {
		x, y := a.At(m.tb, i), b.At(m.tb, i)
		if x == y {
			continue
		}
		r = m.tb.Ite(m.tb.Ult(x, y), m.tb.True, m.tb.Ite(m.tb.Ult(y, x), m.tb.False, r))
	}
	return r
}

// bytesCmp3 returns the three-way comparison of two byte sequences as a 64-bit term (-1,0,1).
func (m *Machine) bytesCmp3(a, b []*Term) *Term {
	tb := m.tb
	n := len(a)
	if len(b) < n {
		n = len(b)
	}
	var r *Term
	switch {
	case len(a) < len(b):
		r = tb.Const(64, ^uint64(0))
	case len(a) > len(b):
		r = tb.Const(64, 1)
	default:
		r = tb.Const(64, 0)
	}
	for i := n - 1; i >= 0; i-- {
		x, y := a[i], b[i]
		if x == y {
			continue
		}
		r = tb.Ite(tb.Ult(x, y), tb.Const(64, ^uint64(0)), tb.Ite(tb.Ult(y, x), tb.Const(64, 1), r))
	}
	return r
}

func (m *Machine) sliceBytes(s Slice) []*Term {
	r := make([]*Term, s.len)
	for i := 0; i < s.len; i++ {
		r[i] = s.obj.cells[s.off+i].(*Term)
	}
	return r
}

func (m *Machine) newByteSlice(bs []*Term, tag string) Slice {
	o := m.newObject(len(bs), tag)
	for i, b := range bs {
		o.cells[i] = b
	}
	return Slice{obj: o, off: 0, len: len(bs), cap: len(bs), esz: 1}
}

// ---------- generic equality ----------

func (m *Machine) valEq(x, y value) *Term {
	tb := m.tb
	switch a := x.(type) {
	case nil:
		return tb.Bool(isNilValue(y))
	case *Term:
		if b, ok := y.(*Term); ok {
			return tb.Eq(a, b)
		}
	case Str:
		if b, ok := y.(Str); ok {
			return m.strEq(a, b)
		}
	case Ptr:
		if b, ok := y.(Ptr); ok {
			return tb.Bool(a.obj == b.obj && (a.obj == nil || a.idx == b.idx))
		}
		if y == nil {
			return tb.Bool(a.obj == nil)
		}
	case Slice:
		if isNilValue(y) {
			return tb.Bool(a.obj == nil)
		}
	case *MapObj:
		if isNilValue(y) {
			return tb.Bool(a == nil)
		}
		if b, ok := y.(*MapObj); ok {
			return tb.Bool(a == b)
		}
	case Func:
		if isNilValue(y) {
			return tb.Bool(a.fn == nil && a.native == nil)
		}
	case Iface:
		b, ok := y.(Iface)
		if !ok {
			if y == nil {
				return tb.Bool(a.t == nil)
			}
			break
		}
		if a.t == nil || b.t == nil {
			return tb.Bool(a.t == nil && b.t == nil)
		}
		if !types.Identical(a.t, b.t) {
			return tb.False
		}
		return m.valEq(a.v, b.v)
	case Agg:
		b := y.(Agg)
		r := tb.True
		for i := range a {
			r = tb.And(r, m.valEq(a[i], b[i]))
		}
		return r
	case Float:
		if b, ok := y.(Float); ok {
			return tb.Bool(a == b)
		}
	case reflType:
		if b, ok := y.(reflType); ok {
			return tb.Bool(types.Identical(a.t, b.t))
		}
	}
	abortf("unsupported equality %T == %T", x, y)
	return nil
}

func isNilValue(v value) bool {
	switch a := v.(type) {
	case nil:
		return true
	case Ptr:
		return a.obj == nil
	case Slice:
		return a.obj == nil
	case *MapObj:
		return a == nil
	case Func:
		return a.fn == nil && a.native == nil
	case Iface:
		return a.t == nil
	}
	return false
}

// ---------- conversions ----------

func (m *Machine) convert(from, to types.Type, x value) value {
	tb := m.tb
	fu, tu := from.Underlying(), to.Underlying()
	if tw, _, ok := intInfo(tu); ok {
		if _, fs, ok2 := intInfo(fu); ok2 {
			return tb.Resize(x.(*Term), tw, fs)
		}
		if fl, isF := x.(Float); isF {
			return tb.Const(tw, uint64(int64(fl)))
		}
		if p, isP := x.(Ptr); isP { // unsafe.Pointer -> uintptr
			if p.obj == nil {
				return tb.Const(tw, 0)
			}
			return tb.Const(tw, uint64(p.obj.id)<<20+uint64(p.idx))
		}
	}
	if isFloatType(tu) {
		if fw, fs, ok := intInfo(fu); ok {
			t := x.(*Term)
			if !t.IsConst() {
				abortf("symbolic int to float conversion")
			}
			if fs {
				return Float(sext64(t.k, fw))
			}
			return Float(t.k)
		}
		if fl, isF := x.(Float); isF {
			if tu.(*types.Basic).Kind() == types.Float32 {
				return Float(float32(fl))
			}
			return fl
		}
	}
	if isStringType(tu) {
		if _, _, ok := intInfo(fu); ok {
			t := x.(*Term)
			if !t.IsConst() {
				abortf("symbolic rune to string conversion")
			}
			return Str{s: string(rune(sext64(t.k, t.w)))}
		}
		if s, isS := x.(Str); isS {
			return s
		}
		if sl, ok := fu.(*types.Slice); ok {
			s := x.(Slice)
			ew, _, _ := intInfo(sl.Elem())
			if ew == 8 {
				return mkStr(m.sliceBytes(s))
			}
			// []rune
			rs := make([]rune, s.len)
			for i := range rs {
				t := s.obj.cells[s.off+i].(*Term)
				if !t.IsConst() {
					abortf("symbolic []rune to string")
				}
				rs[i] = rune(t.k)
			}
			return Str{s: string(rs)}
		}
	}
	if sl, ok := tu.(*types.Slice); ok {
		if s, isS := x.(Str); isS {
			ew, _, _ := intInfo(sl.Elem())
			if ew == 8 {
				bs := s.Bytes(tb)
				cp := make([]*Term, len(bs))
				copy(cp, bs)
				if len(cp) == 0 {
					// []byte("") is non-nil
					o := m.newObject(0, "bytes")
					return Slice{obj: o, esz: 1}
				}
				return m.newByteSlice(cp, "bytes")
			}
			if !s.IsConc() {
				abortf("symbolic string to []rune")
			}
			rs := []rune(s.s)
			o := m.newObject(len(rs), "runes")
			for i, r := range rs {
				o.cells[i] = tb.Const(32, uint64(r))
			}
			return Slice{obj: o, len: len(rs), cap: len(rs), esz: 1}
		}
	}
	// pointer <-> unsafe.Pointer
	if _, ok := x.(Ptr); ok {
		return x
	}
	if t, ok := x.(*Term); ok {
		if b, isB := tu.(*types.Basic); isB && b.Kind() == types.UnsafePointer {
			if t.IsConst() && t.k == 0 {
				return Ptr{}
			}
		}
	}
	abortf("unsupported conversion %s -> %s (%T)", from, to, x)
	return nil
}

// ---------- maps ----------

func (m *Machine) keyEq(a, b value) *Term {
	return m.valEq(a, b)
}

// mapFind returns the index of the entry whose key equals k (forking when equality is symbolic), or -1.
func (m *Machine) mapFind(mp *MapObj, k value) int {
	for i := range mp.keys {
		if !mp.live[i] {
			continue
		}
		eq := m.keyEq(mp.keys[i], k)
		if eq.IsConst() {
			if eq.k != 0 {
				return i
			}
			continue
		}
		if m.branch(eq) {
			return i
		}
	}
	return -1
}

func (m *Machine) mapUpdate(mp *MapObj, k, v value) {
	i := m.mapFind(mp, k)
	m.instrWrote = true
	if i >= 0 {
		old := mp.vals[i]
		m.undoLog(func() { mp.vals[i] = old })
		mp.vals[i] = v
		return
	}
	n := len(mp.keys)
	m.undoLog(func() {
		mp.keys = mp.keys[:n]
		mp.vals = mp.vals[:n]
		mp.live = mp.live[:n]
		mp.n--
	})
	mp.keys = append(mp.keys[:n:n], k)
	mp.vals = append(mp.vals[:n:n], v)
	mp.live = append(mp.live[:n:n], true)
	mp.n++
}

func (m *Machine) mapDelete(mp *MapObj, k value) {
	i := m.mapFind(mp, k)
	if i < 0 {
		return
	}
	m.instrWrote = true
	m.undoLog(func() { mp.live[i] = true; mp.n++ })
	mp.live[i] = false
	mp.n--
}

func (m *Machine) lookup(f *Frame, in *ssa.Lookup) value {
	x := m.get(f, in.X)
	if s, ok := x.(Str); ok {
		return m.strIndex(s, m.widenIndex(in.Index.Type(), m.get(f, in.Index).(*Term)))
	}
	mp := x.(*MapObj)
	vt := in.X.Type().Underlying().(*types.Map).Elem()
	i := -1
	if mp != nil {
		i = m.mapFind(mp, m.get(f, in.Index))
	}
	var v value
	if i >= 0 {
		v = mp.vals[i]
	} else {
		v = m.zero(vt)
	}
	if in.CommaOk {
		return Tuple{v, m.tb.Bool(i >= 0)}
	}
	return v
}

func (m *Machine) rangeStart(f *Frame, in *ssa.Range) value {
	x := m.get(f, in.X)
	it := &mapIter{obj: m.newObject(1, "rangeiter")}
	it.obj.cells[0] = m.tb.Const(64, 0)
	switch x := x.(type) {
	case Str:
		it.isS = true
		it.str = x
	case *MapObj:
		it.mp = x
		if x != nil {
			for i := range x.keys {
				if x.live[i] {
					it.ord = append(it.ord, i)
				}
			}
			if m.mapOrderNondet && len(it.ord) > 1 {
				it.ord = m.permute(it.ord)
			}
		}
	default:
		abortf("range over %T", x)
	}
	return it
}

// permute forks over orderings of a map's entries (all k! for k<=4, else rotations + reverse).
func (m *Machine) permute(ord []int) []int {
	k := len(ord)
	if k <= 4 {
		rem := append([]int(nil), ord...)
		var out []int
		for len(rem) > 0 {
			i := m.chooseN(len(rem))
			out = append(out, rem[i])
			rem = append(rem[:i:i], rem[i+1:]...)
		}
		return out
	}
	c := m.chooseN(k + 1)
	out := make([]int, k)
	if c == k {
		for i := range ord {
			out[i] = ord[k-1-i]
		}
		return out
	}
	for i := range ord {
		out[i] = ord[(i+c)%k]
	}
	return out
}

func (m *Machine) rangeNext(f *Frame, in *ssa.Next) value {
	it := m.get(f, in.Iter).(*mapIter)
	pos := int(it.obj.cells[0].(*Term).k)
	tb := m.tb
	if it.isS {
		s := it.str
		if pos >= s.Len() {
			return Tuple{tb.False, tb.Const(64, 0), tb.Const(32, 0)}
		}
		if s.IsConc() {
			r, sz := utf8.DecodeRuneInString(s.s[pos:])
			m.write(it.obj, 0, tb.Const(64, uint64(pos+sz)))
			return Tuple{tb.True, tb.Const(64, uint64(pos)), tb.Const(32, uint64(r))}
		}
		b := s.b[pos]
		ascii := tb.Ult(b, tb.Const(8, 0x80))
		if m.branch(ascii) {
			m.write(it.obj, 0, tb.Const(64, uint64(pos+1)))
			return Tuple{tb.True, tb.Const(64, uint64(pos)), tb.Zext(b, 32)}
		}
		// over-approximation: a byte >= 0x80 starts an arbitrary non-ASCII rune of width 1..4
		m.stubsHit["range-string-nonascii(overapprox)"]++
		w := 1 + m.chooseN(4)
		if pos+w > s.Len() {
			w = s.Len() - pos
		}
		r := m.freshVar("rune", 32)
		m.assume(tb.Not(tb.Ult(r, tb.Const(32, 0x80))))
		m.assume(tb.Ult(r, tb.Const(32, 0x110000)))
		m.write(it.obj, 0, tb.Const(64, uint64(pos+w)))
		return Tuple{tb.True, tb.Const(64, uint64(pos)), r}
	}
	mt := in.Iter.(*ssa.Range).X.Type().Underlying().(*types.Map)
	for pos < len(it.ord) {
		i := it.ord[pos]
		pos++
		if it.mp.live[i] {
			m.write(it.obj, 0, tb.Const(64, uint64(pos)))
			return Tuple{tb.True, it.mp.keys[i], it.mp.vals[i]}
		}
	}
	m.write(it.obj, 0, tb.Const(64, uint64(pos)))
	return Tuple{tb.False, m.zero(mt.Key()), m.zero(mt.Elem())}
}

func (m *Machine) freshVar(tag string, w uint8) *Term {
	n := 0
	for _, in := range m.inputs {
		if len(in.Name) > len(tag) && in.Name[:len(tag)] == tag && in.Name[len(tag)] == '#' {
			n++
		}
	}
	name := fmt.Sprintf("%s#%d", tag, n)
	t := m.tb.Var(name, w)
	m.inputs = append(m.inputs, inputRec{Name: name, Kind: fmt.Sprintf("u%d", w), t: t})
	return t
}
