package main

import (
	"fmt"
	"go/token"
	"go/types"

	"golang.org/x/tools/go/ssa"
)

func (m *Machine) exec(f *Frame, in ssa.Instruction) {
	switch in := in.(type) {
	case *ssa.DebugRef:
		f.ip++
	case *ssa.Alloc:
		t := in.Type().(*types.Pointer).Elem()
		o := m.newZeroObject(t, "alloc:"+in.Comment)
		m.set(f, in, Ptr{obj: o})
		f.ip++
	case *ssa.UnOp:
		m.set(f, in, m.unop(f, in))
		f.ip++
	case *ssa.BinOp:
		m.set(f, in, m.binop(in.Op, in.X.Type(), m.get(f, in.X), m.get(f, in.Y), in.Y.Type()))
		f.ip++
	case *ssa.Store:
		t := in.Addr.Type().(*types.Pointer).Elem()
		m.store(m.get(f, in.Addr), t, m.get(f, in.Val))
		f.ip++
	case *ssa.FieldAddr:
		p := m.get(f, in.X)
		pp, ok := p.(Ptr)
		if !ok {
			abortf("FieldAddr on %T", p)
		}
		if pp.obj == nil {
			m.goPanicf("nil pointer dereference (field %d) at %s", in.Field, m.posOf(in))
		}
		st := in.X.Type().(*types.Pointer).Elem().Underlying().(*types.Struct)
		m.set(f, in, Ptr{obj: pp.obj, idx: pp.idx + m.fieldOff(st, in.Field)})
		f.ip++
	case *ssa.Field:
		a := m.get(f, in.X).(Agg)
		st := in.X.Type().Underlying().(*types.Struct)
		off := m.fieldOff(st, in.Field)
		ft := st.Field(in.Field).Type()
		if isAggType(ft) {
			n := m.ncells(ft)
			m.set(f, in, Agg(a[off:off+n:off+n]))
		} else {
			m.set(f, in, a[off])
		}
		f.ip++
	case *ssa.IndexAddr:
		m.set(f, in, m.indexAddr(f, in))
		f.ip++
	case *ssa.Index:
		m.set(f, in, m.index(f, in))
		f.ip++
	case *ssa.Lookup:
		m.set(f, in, m.lookup(f, in))
		f.ip++
	case *ssa.Slice:
		m.set(f, in, m.sliceOp(f, in))
		f.ip++
	case *ssa.Phi:
		// handled at block entry
		abortf("stray phi")
	case *ssa.Jump:
		m.jump(f, f.block.Succs[0])
	case *ssa.If:
		c := m.get(f, in.Cond).(*Term)
		if !c.IsConst() {
			m.noteSymLoop(f)
		}
		if m.branch(c) {
			m.jump(f, f.block.Succs[0])
		} else {
			m.jump(f, f.block.Succs[1])
		}
	case *ssa.Return:
		m.doReturn(f, in)
	case *ssa.Call:
		m.doCall(f, in, in.Common(), in)
	case *ssa.Defer:
		fnv, args := m.prepareCall(f, in.Common())
		f.defers = append(f.defers, deferRec{fn: fnv, args: args})
		f.ip++
	case *ssa.RunDefers:
		if len(f.defers) == 0 {
			f.ip++
			return
		}
		d := f.defers[len(f.defers)-1]
		f.defers = f.defers[:len(f.defers)-1]
		m.callValue(f, d.fn, d.args, nil, fkDefer, nil)
	case *ssa.Panic:
		v := m.get(f, in.X)
		panic(goPanic{val: v, msg: "panic: " + m.describe(v) + " at " + m.posOf(in)})
	case *ssa.MakeInterface:
		m.set(f, in, Iface{t: in.X.Type(), v: m.get(f, in.X)})
		f.ip++
	case *ssa.ChangeInterface:
		m.set(f, in, m.get(f, in.X))
		f.ip++
	case *ssa.ChangeType:
		m.set(f, in, m.get(f, in.X))
		f.ip++
	case *ssa.Convert:
		m.set(f, in, m.convert(in.X.Type(), in.Type(), m.get(f, in.X)))
		f.ip++
	case *ssa.TypeAssert:
		m.set(f, in, m.typeAssert(f, in))
		f.ip++
	case *ssa.Extract:
		t := m.get(f, in.Tuple).(Tuple)
		m.set(f, in, t[in.Index])
		f.ip++
	case *ssa.MakeClosure:
		fn := in.Fn.(*ssa.Function)
		env := make([]value, len(in.Bindings))
		for i, b := range in.Bindings {
			env[i] = m.get(f, b)
		}
		m.set(f, in, Func{fn: fn, env: env})
		f.ip++
	case *ssa.MakeSlice:
		ln := m.concInt(m.get(f, in.Len).(*Term), true, "make len")
		cp := m.concInt(m.get(f, in.Cap).(*Term), true, "make cap")
		if ln < 0 || cp < ln {
			m.goPanicf("makeslice: len out of range")
		}
		if cp > 1<<26 {
			m.goPanicf("makeslice: cap too large for the engine (%d)", cp)
		}
		et := in.Type().Underlying().(*types.Slice).Elem()
		esz := m.ncells(et)
		o := m.newObject(cp*esz, "makeslice")
		m.fillZero(o, et, cp)
		m.set(f, in, Slice{obj: o, off: 0, len: ln, cap: cp, esz: esz})
		f.ip++
	case *ssa.MakeMap:
		m.nextObj++
		m.set(f, in, &MapObj{id: m.nextObj, epoch: m.epoch})
		f.ip++
	case *ssa.MapUpdate:
		mp := m.get(f, in.Map).(*MapObj)
		if mp == nil {
			m.goPanicf("assignment to entry in nil map")
		}
		m.mapUpdate(mp, m.get(f, in.Key), m.get(f, in.Value))
		f.ip++
	case *ssa.Range:
		m.set(f, in, m.rangeStart(f, in))
		f.ip++
	case *ssa.Next:
		m.set(f, in, m.rangeNext(f, in))
		f.ip++
	case *ssa.SliceToArrayPointer:
		s := m.get(f, in.X).(Slice)
		n := int(in.Type().(*types.Pointer).Elem().Underlying().(*types.Array).Len())
		if s.len < n {
			m.goPanicf("slice to array pointer: len %d < %d", s.len, n)
		}
		m.set(f, in, Ptr{obj: s.obj, idx: s.off})
		f.ip++
	default:
		abortf("unsupported instruction %T (%v) in %s", in, in, f.fn)
	}
}

func (m *Machine) fillZero(o *Object, et types.Type, n int) {
	esz := m.ncells(et)
	if esz == 0 || n == 0 {
		return
	}
	if !isAggType(et) {
		z := m.zero1(et)
		for i := range o.cells {
			o.cells[i] = z
		}
		return
	}
	for i := 0; i < n; i++ {
		m.zeroCells(et, o.cells[i*esz:(i+1)*esz])
	}
}

func (m *Machine) noteSymLoop(f *Frame) {
	// unwinding assertion for loops whose condition is symbolic: bound per (depth, block)
	k := loopKey{len(m.frames), f.block}
	_ = k
}

func (m *Machine) jump(f *Frame, to *ssa.BasicBlock) {
	from := f.block
	f.prev = from
	f.block = to
	f.ip = 0
	// evaluate phis simultaneously
	var idx = -1
	nphi := 0
	for _, in := range to.Instrs {
		if _, ok := in.(*ssa.Phi); ok {
			nphi++
		} else {
			break
		}
	}
	if nphi == 0 {
		return
	}
	for i, p := range to.Preds {
		if p == from {
			idx = i
			break
		}
	}
	vals := make([]value, nphi)
	for i := 0; i < nphi; i++ {
		vals[i] = m.get(f, to.Instrs[i].(*ssa.Phi).Edges[idx])
	}
	for i := 0; i < nphi; i++ {
		m.set(f, to.Instrs[i].(*ssa.Phi), vals[i])
	}
	f.ip = nphi
}

// concInt turns an integer term into a concrete Go int, forking over its feasible values.
func (m *Machine) concInt(t *Term, signed bool, why string) int {
	v := m.concretize(t, why)
	if signed {
		return int(sext64(v, t.w))
	}
	return int(v)
}

func (m *Machine) unop(f *Frame, in *ssa.UnOp) value {
	x := m.get(f, in.X)
	switch in.Op {
	case token.MUL:
		return m.load(x, in.Type())
	case token.NOT:
		return m.tb.Not(x.(*Term))
	case token.SUB:
		if fl, ok := x.(Float); ok {
			return -fl
		}
		return m.tb.Neg(x.(*Term))
	case token.XOR:
		return m.tb.BNot(x.(*Term))
	}
	abortf("unsupported unop %v", in.Op)
	return nil
}

func (m *Machine) describe(v value) string {
	switch v := v.(type) {
	case Iface:
		if v.t == nil {
			return "nil"
		}
		return m.describe(v.v)
	case Str:
		if v.IsConc() {
			return v.s
		}
		return fmt.Sprintf("<symbolic string len %d>", v.Len())
	case *Term:
		return v.String()
	case Ptr:
		if v.obj != nil && v.obj.tag != "" {
			return "&" + v.obj.tag
		}
	}
	return fmt.Sprintf("%T", v)
}

// ---------- indexing ----------

func (m *Machine) boundsCheck(idx *Term, signed bool, n int, what string) {
	// panic path when idx can be outside [0,n)
	nn := m.tb.Const(idx.w, uint64(n))
	var inb *Term
	if signed {
		// 0 <= idx < n  as unsigned compare (negative numbers are huge)
		inb = m.tb.Ult(idx, nn)
	} else {
		inb = m.tb.Ult(idx, nn)
	}
	if inb.IsConst() && inb.k != 0 {
		return
	}
	if !m.branch(inb) {
		m.goPanicf("index out of range [%s] with length %d (%s) at %s", m.describe(idx), n, what, m.posOf(m.curInstr))
	}
}

func isScalarCellType(t types.Type) bool {
	if isAggType(t) {
		return false
	}
	if _, _, ok := intInfo(t); ok {
		return true
	}
	return isBoolType(t)
}

// elemAddr computes the address of element idx of a run of n elements of size esz at obj/off.
func (m *Machine) elemAddr(obj *Object, off, n, esz int, et types.Type, idx *Term, what string) value {
	if idx.IsConst() {
		i := int(sext64(idx.k, idx.w))
		if i < 0 || i >= n {
			m.goPanicf("index out of range [%d] with length %d (%s) at %s", i, n, what, m.posOf(m.curInstr))
		}
		return Ptr{obj: obj, idx: off + i*esz}
	}
	m.boundsCheck(idx, true, n, what)
	if esz == 1 && isScalarCellType(et) {
		lo, hi := 0, n-1
		if idx.lo <= uint64(hi) && int(idx.lo) > lo {
			lo = int(idx.lo)
		}
		if idx.hi < uint64(hi) {
			hi = int(idx.hi)
		}
		if hi-lo+1 <= m.cfg.SymIdxCap {
			if lo == hi {
				return Ptr{obj: obj, idx: off + lo}
			}
			return SymPtr{obj: obj, off: off, idx: idx, lo: lo, hi: hi}
		}
	}
	i := m.concInt(idx, true, "index "+what)
	return Ptr{obj: obj, idx: off + i*esz}
}

// widenIndex extends an index of a narrow integer type to 64 bits according to its
// signedness (a byte index into a 256-element table; an int8 index that may be negative), so that
// the bounds comparison is done in a width that can represent the length.
func (m *Machine) widenIndex(t types.Type, idx *Term) *Term {
	if idx.w >= 64 {
		return idx
	}
	if b, ok := t.Underlying().(*types.Basic); ok && b.Info()&types.IsUnsigned != 0 {
		return m.tb.Zext(idx, 64)
	}
	return m.tb.Sext(idx, 64)
}

func (m *Machine) indexAddr(f *Frame, in *ssa.IndexAddr) value {
	x := m.get(f, in.X)
	idx := m.widenIndex(in.Index.Type(), m.get(f, in.Index).(*Term))
	switch xt := in.X.Type().Underlying().(type) {
	case *types.Slice:
		s := x.(Slice)
		return m.elemAddr(s.obj, s.off, s.len, s.esz, xt.Elem(), idx, "slice")
	case *types.Pointer:
		at := xt.Elem().Underlying().(*types.Array)
		p := x.(Ptr)
		if p.obj == nil {
			m.goPanicf("nil pointer dereference (array index)")
		}
		return m.elemAddr(p.obj, p.idx, int(at.Len()), m.ncells(at.Elem()), at.Elem(), idx, "array")
	}
	abortf("IndexAddr on %s", in.X.Type())
	return nil
}

func (m *Machine) strIndex(s Str, idx *Term) value {
	n := s.Len()
	if idx.IsConst() {
		i := int(sext64(idx.k, idx.w))
		if i < 0 || i >= n {
			m.goPanicf("index out of range [%d] with length %d (string) at %s", i, n, m.posOf(m.curInstr))
		}
		return s.At(m.tb, i)
	}
	m.boundsCheck(idx, true, n, "string")
	lo, hi := 0, n-1
	if idx.lo <= uint64(hi) && int(idx.lo) > lo {
		lo = int(idx.lo)
	}
	if idx.hi < uint64(hi) {
		hi = int(idx.hi)
	}
	if hi-lo+1 > m.cfg.SymIdxCap {
		i := m.concInt(idx, true, "string index")
		return s.At(m.tb, i)
	}
	var r *Term
	for i := hi; i >= lo; i-- {
		c := s.At(m.tb, i)
		if r == nil {
			r = c
		} else {
			r = m.tb.Ite(m.tb.Eq(idx, m.tb.Const(idx.w, uint64(i))), c, r)
		}
	}
	return r
}

func (m *Machine) index(f *Frame, in *ssa.Index) value {
	x := m.get(f, in.X)
	idx := m.widenIndex(in.Index.Type(), m.get(f, in.Index).(*Term))
	switch xt := in.X.Type().Underlying().(type) {
	case *types.Basic: // string
		return m.strIndex(x.(Str), idx)
	case *types.Array:
		a := x.(Agg)
		esz := m.ncells(xt.Elem())
		n := int(xt.Len())
		if !idx.IsConst() {
			m.boundsCheck(idx, true, n, "array value")
			if esz == 1 && isScalarCellType(xt.Elem()) && n <= m.cfg.SymIdxCap {
				var r *Term
				for i := n - 1; i >= 0; i-- {
					c := a[i].(*Term)
					if r == nil {
						r = c
					} else {
						r = m.tb.Ite(m.tb.Eq(idx, m.tb.Const(idx.w, uint64(i))), c, r)
					}
				}
				return r
			}
		}
		i := m.concInt(idx, true, "array index")
		if i < 0 || i >= n {
			m.goPanicf("index out of range [%d] with length %d", i, n)
		}
		if isAggType(xt.Elem()) {
			return Agg(a[i*esz : (i+1)*esz : (i+1)*esz])
		}
		return a[i*esz]
	}
	abortf("Index on %s", in.X.Type())
	return nil
}

func (m *Machine) sliceOp(f *Frame, in *ssa.Slice) value {
	x := m.get(f, in.X)
	get := func(v ssa.Value, def int) int {
		if v == nil {
			return def
		}
		return m.concInt(m.widenIndex(v.Type(), m.get(f, v).(*Term)), true, "slice bound")
	}
	switch xt := in.X.Type().Underlying().(type) {
	case *types.Basic: // string
		s := x.(Str)
		lo := get(in.Low, 0)
		hi := get(in.High, s.Len())
		if lo < 0 || hi < lo || hi > s.Len() {
			m.goPanicf("slice bounds out of range [%d:%d] with string length %d at %s", lo, hi, s.Len(), m.posOf(in))
		}
		return s.Sub(lo, hi)
	case *types.Slice:
		s := x.(Slice)
		lo := get(in.Low, 0)
		hi := get(in.High, s.len)
		mx := get(in.Max, s.cap)
		if lo < 0 || hi < lo || mx < hi || mx > s.cap {
			m.goPanicf("slice bounds out of range [%d:%d:%d] with capacity %d at %s", lo, hi, mx, s.cap, m.posOf(in))
		}
		if s.obj == nil {
			return Slice{esz: s.esz}
		}
		return Slice{obj: s.obj, off: s.off + lo*s.esz, len: hi - lo, cap: mx - lo, esz: s.esz}
	case *types.Pointer:
		at := xt.Elem().Underlying().(*types.Array)
		p := x.(Ptr)
		n := int(at.Len())
		lo := get(in.Low, 0)
		hi := get(in.High, n)
		mx := get(in.Max, n)
		if p.obj == nil {
			m.goPanicf("nil pointer dereference (slice of array)")
		}
		if lo < 0 || hi < lo || mx < hi || mx > n {
			m.goPanicf("slice bounds out of range [%d:%d:%d] with array length %d", lo, hi, mx, n)
		}
		esz := m.ncells(at.Elem())
		return Slice{obj: p.obj, off: p.idx + lo*esz, len: hi - lo, cap: mx - lo, esz: esz}
	}
	abortf("Slice on %s", in.X.Type())
	return nil
}

// ---------- type assertions ----------

func (m *Machine) implements(t types.Type, it *types.Interface) bool {
	return types.Implements(t, it)
}

func (m *Machine) typeAssert(f *Frame, in *ssa.TypeAssert) value {
	x := m.get(f, in.X).(Iface)
	var ok bool
	var res value
	if it, isI := in.AssertedType.Underlying().(*types.Interface); isI {
		ok = x.t != nil && m.implements(x.t, it)
		if ok {
			res = x
		} else {
			res = Iface{}
		}
	} else {
		ok = x.t != nil && types.Identical(x.t, in.AssertedType)
		if ok {
			res = x.v
		} else {
			res = m.zero(in.AssertedType)
		}
	}
	if in.CommaOk {
		return Tuple{res, m.tb.Bool(ok)}
	}
	if !ok {
		ts := "nil"
		if x.t != nil {
			ts = x.t.String()
		}
		m.goPanicf("interface conversion: interface is %s, not %s at %s", ts, in.AssertedType, m.posOf(in))
	}
	return res
}

// ---------- calls ----------

func (m *Machine) prepareCall(f *Frame, c *ssa.CallCommon) (value, []value) {
	var args []value
	var fnv value
	if c.IsInvoke() {
		recv := m.get(f, c.Value).(Iface)
		if recv.t == nil {
			m.goPanicf("nil interface method call %s at %s", c.Method.Name(), m.posOf(m.curInstr))
		}
		if rt, isRT := recv.v.(reflType); isRT {
			for _, a := range c.Args {
				args = append(args, m.get(f, a))
			}
			return Func{native: m.reflTypeMethod(rt, c.Method.Name())}, args
		}
		sel := m.prog.MethodSets.MethodSet(recv.t).Lookup(c.Method.Pkg(), c.Method.Name())
		if sel == nil {
			abortf("method %s not found on %s", c.Method.Name(), recv.t)
		}
		fn := m.prog.MethodValue(sel)
		if fn == nil {
			abortf("no MethodValue for %s on %s", c.Method.Name(), recv.t)
		}
		fnv = Func{fn: fn}
		args = append(args, recv.v)
	} else {
		fnv = m.get(f, c.Value)
	}
	for _, a := range c.Args {
		args = append(args, m.get(f, a))
	}
	return fnv, args
}

func (m *Machine) doCall(f *Frame, in ssa.Instruction, c *ssa.CallCommon, res ssa.Value) {
	fnv, args := m.prepareCall(f, c)
	m.callValue(f, fnv, args, res, fkNormal, c)
}

// callValue performs a call; for interpreted callees it pushes a frame and leaves f.ip
// unchanged (the return advances it), otherwise it stores the result and advances.
func (m *Machine) callValue(f *Frame, fnv value, args []value, res ssa.Value, kind int, c *ssa.CallCommon) {
	switch fv := fnv.(type) {
	case *ssa.Builtin:
		r := m.builtin(f, fv, args, c)
		if res != nil {
			m.set(f, res, r)
		}
		if kind != fkDefer {
			f.ip++
		}
		return
	case Func:
		if fv.native != nil {
			r := fv.native.f(m, args)
			if res != nil {
				m.set(f, res, r)
			}
			if kind != fkDefer {
				f.ip++
			}
			return
		}
		if fv.fn == nil {
			m.goPanicf("call of nil func at %s", m.posOf(m.curInstr))
		}
		name := getFuncInfo(fv.fn).name
		if fv.fn.Synthetic == "package initializer" && fv.fn.Pkg != nil && !initAllow[fv.fn.Pkg.Pkg.Path()] {
			if kind != fkDefer {
				f.ip++
			}
			return
		}
		if ic, ok := m.intercepts[name]; ok {
			m.stubsHit[name]++
			r, handled := ic(m, f, args)
			if handled {
				if r == value(pushedFrame) {
					return
				}
				if res != nil {
					m.set(f, res, r)
				}
				if kind != fkDefer {
					f.ip++
				}
				return
			}
		}
		if ic := m.intrinsic(fv.fn); ic != nil {
			r, handled := ic(m, f, args)
			if handled {
				if r == value(pushedFrame) {
					return
				}
				if res != nil {
					m.set(f, res, r)
				}
				if kind != fkDefer {
					f.ip++
				}
				return
			}
		}
		if ps, ok := m.cfg.ConcretizeParams[name]; ok {
			for _, pi := range ps {
				if t, isT := args[pi].(*Term); isT && !t.IsConst() {
					v := m.concretize(t, "param of "+name)
					args[pi] = m.tb.Const(t.w, v)
				}
			}
		}
		if specs, ok := m.cfg.ConcShrParams[name]; ok {
			for _, sp := range specs {
				pi, shr := sp[0], uint64(sp[1])
				t, isT := args[pi].(*Term)
				if !isT || t.IsConst() {
					continue
				}
				hi := m.tb.Lshr(t, m.tb.Const(t.w, shr))
				c := m.concretize(hi, "param>>"+fmt.Sprint(shr)+" of "+name)
				args[pi] = m.tb.BOr(m.tb.Const(t.w, c<<shr), m.tb.BAnd(t, m.tb.Const(t.w, (uint64(1)<<shr)-1)))
			}
		}
		m.pushFrame(fv.fn, args, fv.env, res, kind)
		return
	}
	abortf("call of %T", fnv)
}

func (m *Machine) doReturn(f *Frame, in *ssa.Return) {
	var r value
	switch len(in.Results) {
	case 0:
	case 1:
		r = m.get(f, in.Results[0])
	default:
		t := make(Tuple, len(in.Results))
		for i, x := range in.Results {
			t[i] = m.get(f, x)
		}
		r = t
	}
	if rs, ok := m.cfg.ConcretizeResults[f.info.name]; ok {
		for _, ri := range rs {
			if tup, isT := r.(Tuple); isT {
				if t, isTerm := tup[ri].(*Term); isTerm && !t.IsConst() {
					v := m.concretize(t, "result of "+f.info.name)
					nt := make(Tuple, len(tup))
					copy(nt, tup)
					nt[ri] = m.tb.Const(t.w, v)
					r = nt
				}
			} else if t, isTerm := r.(*Term); isTerm && !t.IsConst() && ri == 0 {
				r = m.tb.Const(t.w, m.concretize(t, "result of "+f.info.name))
			}
		}
	}
	if specs, ok := m.cfg.ConcShr[f.info.name]; ok {
		for _, sp := range specs {
			ri, shr := sp[0], uint64(sp[1])
			tup, isT := r.(Tuple)
			if !isT {
				continue
			}
			t, isTerm := tup[ri].(*Term)
			if !isTerm || t.IsConst() {
				continue
			}
			// partial concretisation: fork on t>>shr, keep the low bits symbolic
			hi := m.tb.Lshr(t, m.tb.Const(t.w, shr))
			c := m.concretize(hi, "result>>"+fmt.Sprint(shr)+" of "+f.info.name)
			nt := make(Tuple, len(tup))
			copy(nt, tup)
			nt[ri] = m.tb.BOr(m.tb.Const(t.w, c<<shr), m.tb.BAnd(t, m.tb.Const(t.w, (uint64(1)<<shr)-1)))
			r = nt
		}
	}
	m.returnValue(r)
}

// returnValue pops the top frame and delivers r to the caller.
func (m *Machine) returnValue(r value) {
	top := m.frames[len(m.frames)-1]
	m.frames = m.frames[:len(m.frames)-1]
	if len(m.frames) == 0 {
		return
	}
	caller := &m.frames[len(m.frames)-1]
	switch top.kind {
	case fkNormal:
		if top.retTo != nil {
			m.set(caller, top.retTo, r)
		}
		caller.ip++
	case fkCatch:
		if top.retTo != nil {
			m.set(caller, top.retTo, m.tb.False)
		}
		caller.ip++
	case fkDefer:
		// caller re-executes its RunDefers instruction
	case fkCont:
		v := top.cont(m, r)
		if v == value(pushedFrame) {
			return
		}
		caller = &m.frames[len(m.frames)-1]
		if top.retTo != nil {
			m.set(caller, top.retTo, v)
		}
		caller.ip++
	}
}

// ---------- builtins ----------

func (m *Machine) builtin(f *Frame, b *ssa.Builtin, args []value, c *ssa.CallCommon) value {
	switch b.Name() {
	case "len":
		switch x := args[0].(type) {
		case Slice:
			return m.tb.Const(64, uint64(x.len))
		case Str:
			return m.tb.Const(64, uint64(x.Len()))
		case *MapObj:
			if x == nil {
				return m.tb.Const(64, 0)
			}
			return m.tb.Const(64, uint64(x.n))
		case Agg:
			at := c.Args[0].Type().Underlying().(*types.Array)
			return m.tb.Const(64, uint64(at.Len()))
		case Ptr:
			at := c.Args[0].Type().Underlying().(*types.Pointer).Elem().Underlying().(*types.Array)
			return m.tb.Const(64, uint64(at.Len()))
		}
	case "cap":
		switch x := args[0].(type) {
		case Slice:
			return m.tb.Const(64, uint64(x.cap))
		case Agg:
			at := c.Args[0].Type().Underlying().(*types.Array)
			return m.tb.Const(64, uint64(at.Len()))
		}
	case "append":
		return m.appendOp(args[0].(Slice), args[1], c.Args[0].Type().Underlying().(*types.Slice).Elem())
	case "copy":
		return m.tb.Const(64, uint64(m.copyOp(args[0].(Slice), args[1])))
	case "panic":
		panic(goPanic{val: args[0], msg: "panic: " + m.describe(args[0])})
	case "recover":
		return Iface{}
	case "delete":
		mp := args[0].(*MapObj)
		if mp != nil {
			m.mapDelete(mp, args[1])
		}
		return nil
	case "print", "println":
		return nil
	case "min", "max":
		r := args[0].(*Term)
		_, signed, _ := intInfo(c.Args[0].Type())
		for _, a := range args[1:] {
			t := a.(*Term)
			var lt *Term
			if signed {
				lt = m.tb.Slt(t, r)
			} else {
				lt = m.tb.Ult(t, r)
			}
			if b.Name() == "max" {
				lt = m.tb.Not(lt)
				// max: pick t when t >= r ... equal either way
			}
			r = m.tb.Ite(lt, t, r)
		}
		return r
	case "SliceData":
		sl := args[0].(Slice)
		if sl.obj == nil {
			return Ptr{}
		}
		return Ptr{obj: sl.obj, idx: sl.off}
	case "String": // unsafe.String(ptr, len): an immutable snapshot of the bytes
		p := args[0].(Ptr)
		n := m.concInt(args[1].(*Term), true, "unsafe.String")
		if n == 0 {
			return Str{}
		}
		bs := make([]*Term, n)
		for i := range bs {
			bs[i] = p.obj.cells[p.idx+i].(*Term)
		}
		return mkStr(bs)
	case "StringData":
		st := args[0].(Str)
		if st.Len() == 0 {
			return Ptr{}
		}
		sl := m.newByteSlice(append([]*Term(nil), st.Bytes(m.tb)...), "stringdata")
		return Ptr{obj: sl.obj, idx: 0}
	case "Slice": // unsafe.Slice(ptr, len)
		p := args[0].(Ptr)
		n := m.concInt(args[1].(*Term), true, "unsafe.Slice")
		if p.obj == nil {
			return Slice{esz: 1}
		}
		return Slice{obj: p.obj, off: p.idx, len: n, cap: n, esz: 1}
	case "ssa:wrapnilchk":
		p := args[0].(Ptr)
		if p.obj == nil {
			m.goPanicf("value method called via nil pointer")
		}
		return p
	}
	abortf("unsupported builtin %s(%T)", b.Name(), args[0])
	return nil
}

func (m *Machine) appendOp(s Slice, more value, et types.Type) value {
	esz := m.ncells(et)
	s.esz = esz
	var src []value
	var n int
	switch x := more.(type) {
	case Slice:
		n = x.len
		if n > 0 {
			src = make([]value, n*esz)
			copy(src, x.obj.cells[x.off:x.off+n*esz])
		}
	case Str:
		n = x.Len()
		src = make([]value, n)
		for i := 0; i < n; i++ {
			src[i] = x.At(m.tb, i)
		}
	default:
		abortf("append of %T", more)
	}
	if n == 0 {
		return s
	}
	if s.len+n <= s.cap {
		for i, c := range src {
			m.write(s.obj, s.off+s.len*esz+i, c)
		}
		s.len += n
		return s
	}
	nc := s.cap * 2
	if nc < s.len+n {
		nc = s.len + n
	}
	if nc < 4 {
		nc = 4
	}
	o := m.newObject(nc*esz, "append")
	if s.len > 0 {
		copy(o.cells, s.obj.cells[s.off:s.off+s.len*esz])
	}
	copy(o.cells[s.len*esz:], src)
	// zero the spare capacity
	if esz > 0 {
		if isAggType(et) {
			for i := s.len + n; i < nc; i++ {
				m.zeroCells(et, o.cells[i*esz:(i+1)*esz])
			}
		} else {
			z := m.zero1(et)
			for i := (s.len + n) * esz; i < nc*esz; i++ {
				o.cells[i] = z
			}
		}
	}
	return Slice{obj: o, off: 0, len: s.len + n, cap: nc, esz: esz}
}

func (m *Machine) copyOp(dst Slice, srcv value) int {
	switch src := srcv.(type) {
	case Slice:
		n := dst.len
		if src.len < n {
			n = src.len
		}
		if n == 0 {
			return 0
		}
		esz := dst.esz
		tmp := make([]value, n*esz)
		copy(tmp, src.obj.cells[src.off:src.off+n*esz])
		for i, c := range tmp {
			m.write(dst.obj, dst.off+i, c)
		}
		return n
	case Str:
		n := dst.len
		if src.Len() < n {
			n = src.Len()
		}
		for i := 0; i < n; i++ {
			m.write(dst.obj, dst.off+i, src.At(m.tb, i))
		}
		return n
	}
	abortf("copy from %T", srcv)
	return 0
}
