package main

import (
	"encoding/json"
	"flag"
	"fmt"
	"os"
	"path/filepath"
	"regexp"
	"runtime"
	"sort"
	"strconv"
	"strings"
	"sync"
	"time"

	"golang.org/x/tools/go/packages"
	"golang.org/x/tools/go/ssa"
	"golang.org/x/tools/go/ssa/ssautil"
)

// repoDir is the tree under check.  Registered commands always use /repo; VERIF_REPO exists only so
// that seeded changes can be tried in a scratch copy while another check runs on /repo.
var repoDir = func() string {
	if d := os.Getenv("VERIF_REPO"); d != "" {
		return d
	}
	return "/repo"
}()

// verifDir is /verif; VERIF_DIR (development only, never set by a registered command) lets a
// background run work from a snapshot of the committed tree while /verif is being edited.
var verifDir = func() string {
	if d := os.Getenv("VERIF_DIR"); d != "" {
		return d
	}
	return "/verif"
}()

const modPath = "github.com/openacid/slim"

var harnessPkgs = []string{"trie", "array", "encode", "index"}

type Program struct {
	prog    *ssa.Program
	pkgs    map[string]*ssa.Package // by short name (trie, array, ...)
	overlay map[string][]byte
	loadS   float64
}

// buildOverlay maps the harness sources into the packages under test.
var nativeOnly = map[string][]byte{}

func buildOverlay() (map[string][]byte, error) {
	ov := map[string][]byte{}
	common, err := os.ReadFile(filepath.Join(verifDir, "harness/common/intrinsics.go.txt"))
	if err != nil {
		return nil, err
	}
	for _, p := range harnessPkgs {
		dir := filepath.Join(verifDir, "harness", p)
		ents, err := os.ReadDir(dir)
		if err != nil {
			continue
		}
		n := 0
		for _, e := range ents {
			if !strings.HasSuffix(e.Name(), ".go") {
				continue
			}
			if strings.HasSuffix(e.Name(), "_test.go") {
				// native-only test files (model validation): never loaded by the encoder
				b, err := os.ReadFile(filepath.Join(dir, e.Name()))
				if err != nil {
					return nil, err
				}
				nativeOnly[filepath.Join(repoDir, p, "zz_verif_"+e.Name())] = b
				continue
			}
			b, err := os.ReadFile(filepath.Join(dir, e.Name()))
			if err != nil {
				return nil, err
			}
			ov[filepath.Join(repoDir, p, "zz_verif_"+e.Name())] = b
			n++
		}
		if n > 0 {
			ov[filepath.Join(repoDir, p, "zz_verif_intrinsics.go")] = []byte(strings.Replace(string(common), "package PKG", "package "+p, 1))
		}
	}
	return ov, nil
}

// droppedHarness: harness names whose source file was left out because it no longer compiles
// against the tree under check (a lemma harness that calls an unexported function whose name or
// signature was changed).  Never non-empty on the unchanged tree.
var droppedHarness = map[string]string{}

var registerRe = regexp.MustCompile(`vRegister\("([^"]+)"`)

func loadProgram() (*Program, error) {
	ov, err := buildOverlay()
	if err != nil {
		return nil, err
	}
	for attempt := 0; ; attempt++ {
		P, bad, err := loadProgramWith(ov)
		if err == nil {
			return P, nil
		}
		// retry without the harness files the errors point into (at most a few rounds); the
		// harnesses they register are reported as unavailable, the others still decide the property
		progress := false
		if attempt < 4 {
			for f := range bad {
				if src, ok := ov[f]; ok && strings.Contains(filepath.Base(f), "zz_verif_") && !strings.HasSuffix(f, "zz_verif_intrinsics.go") {
					for _, m := range registerRe.FindAllStringSubmatch(string(src), -1) {
						droppedHarness[m[1]] = filepath.Base(f)
					}
					delete(ov, f)
					progress = true
				}
			}
		}
		if !progress {
			return nil, err
		}
		// native-only model-validation tests reference loader internals too: not needed for replays
		for k := range nativeOnly {
			delete(nativeOnly, k)
		}
	}
}

func loadProgramWith(ov map[string][]byte) (*Program, map[string]bool, error) {
	t0 := time.Now()
	cfg := &packages.Config{
		Mode:       packages.LoadAllSyntax,
		Dir:        repoDir,
		Env:        append(os.Environ(), "GOFLAGS=-mod=mod", "GOPROXY=off", "GOSUMDB=off", "GOTOOLCHAIN=local", "CGO_ENABLED=0"),
		BuildFlags: []string{"-tags=verif"},
		Overlay:    ov,
	}
	var pats []string
	for _, p := range harnessPkgs {
		pats = append(pats, "./"+p)
	}
	pkgs, err := packages.Load(cfg, pats...)
	if err != nil {
		return nil, nil, err
	}
	nerr := 0
	bad := map[string]bool{}
	packages.Visit(pkgs, nil, func(p *packages.Package) {
		for _, e := range p.Errors {
			if strings.HasPrefix(p.PkgPath, modPath) {
				fmt.Fprintf(os.Stderr, "load error: %s: %v\n", p.PkgPath, e)
				nerr++
				if i := strings.Index(e.Pos, ".go:"); i > 0 {
					bad[e.Pos[:i+3]] = true
				}
			}
		}
	})
	if nerr > 0 {
		return nil, bad, fmt.Errorf("%d errors loading /repo packages (does the working tree compile?)", nerr)
	}
	prog, spkgs := ssautil.AllPackages(pkgs, ssa.InstantiateGenerics)
	prog.Build()
	P := &Program{prog: prog, pkgs: map[string]*ssa.Package{}, overlay: ov}
	for i, p := range pkgs {
		if spkgs[i] != nil {
			P.pkgs[filepath.Base(p.PkgPath)] = spkgs[i]
		}
	}
	P.loadS = time.Since(t0).Seconds()
	return P, nil, nil
}

// runInit executes the package initialisers (allow-listed packages only) on a fresh machine.
func (m *Machine) runInit(pkg *ssa.Package) error {
	fn := pkg.Func("init")
	m.keepHeap = true
	res := m.Run(fn, "init", nil)
	m.keepHeap = false
	m.trail = m.trail[:0]
	if res.Status != "ok" {
		return fmt.Errorf("package init failed: %s %s %+v", res.Status, res.Reason, res.Violations)
	}
	return nil
}

type WorkItem struct {
	Spec   *HarnessSpec
	Params map[string]int
	Idx    int
}

type ItemResult struct {
	Item WorkItem
	Res  WorkResult
	Wall float64
}

func defaultConfig() *Config {
	return &Config{
		ConcretizeParams:  map[string][]int{},
		ConcretizeResults: map[string][]int{},
		LoopSymLimit:      64,
		InstrLimit:        instrLimit(),
		PathLimit:         200_000,
		ConcCap:           300,
		SymIdxCap:         1100,
		SolverTimeoutS:    10,
		ItemTimeoutS:      itemTimeout(),
		MaxViolations:     4,
	}
}

func cartesian(ps map[string][]int) []map[string]int {
	names := make([]string, 0, len(ps))
	for k := range ps {
		names = append(names, k)
	}
	sort.Strings(names)
	out := []map[string]int{{}}
	for _, n := range names {
		var next []map[string]int
		for _, base := range out {
			for _, v := range ps[n] {
				mm := map[string]int{}
				for k, x := range base {
					mm[k] = x
				}
				mm[n] = v
				next = append(next, mm)
			}
		}
		out = next
	}
	return out
}

func runItems(P *Program, items []WorkItem, workers int, witnessPer int, trace bool) ([]ItemResult, error) {
	if workers > len(items) {
		workers = len(items)
	}
	if workers < 1 {
		workers = 1
	}
	ch := make(chan WorkItem)
	out := make([]ItemResult, len(items))
	var wg sync.WaitGroup
	var firstErr error
	var mu sync.Mutex
	for w := 0; w < workers; w++ {
		wg.Add(1)
		go func() {
			defer wg.Done()
			machines := map[string]*Machine{}
			defer func() {
				for _, m := range machines {
					m.sol.Close()
				}
			}()
			for it := range ch {
				key := it.Spec.Pkg
				m := machines[key]
				if m == nil {
					cfg := defaultConfig()
					cfg.Trace = trace
					var err error
					m, err = NewMachine(P.prog, cfg)
					if err == nil {
						err = m.runInit(P.pkgs[it.Spec.Pkg])
					}
					if err != nil {
						mu.Lock()
						if firstErr == nil {
							firstErr = err
						}
						mu.Unlock()
						out[it.Idx] = ItemResult{Item: it, Res: WorkResult{Status: "inconclusive", Reason: err.Error()}}
						continue
					}
					machines[key] = m
				}
				it.Spec.apply(m.cfg)
				m.wantWitness = witnessPer
				if witnessPer < 0 {
					m.wantWitness = it.Spec.Witness
				}
				m.rng = uint64(seedOf()*7919+it.Idx+1) * 0x9e3779b97f4a7c15
				m.noSummaries = it.Spec.NoSummaries
				m.twin = it.Params["__twin"] == 1
				if m.twin {
					m.wantWitness = 0
				}
				fn := P.pkgs[it.Spec.Pkg].Func("H_" + it.Spec.Name)
				if fn == nil {
					out[it.Idx] = ItemResult{Item: it, Res: WorkResult{Status: "inconclusive", Reason: "harness function H_" + it.Spec.Name + " not found"}}
					continue
				}
				t0 := time.Now()
				if os.Getenv("VERIF_FORKPROF") != "" {
					m.forkProf = map[string]int{}
				}
				res := m.Run(fn, it.Spec.Name, it.Params)
				if m.forkProf != nil {
					type kv struct {
						k string
						v int
					}
					var kvs []kv
					for k, v := range m.forkProf {
						kvs = append(kvs, kv{k, v})
					}
					sort.Slice(kvs, func(i, j int) bool { return kvs[i].v > kvs[j].v })
					for i, e := range kvs {
						if i < 25 {
							fmt.Printf("  fork %6d %s\n", e.v, e.k)
						}
					}
				}
				out[it.Idx] = ItemResult{Item: it, Res: res, Wall: time.Since(t0).Seconds()}
				if os.Getenv("VERIF_PROGRESS") != "" {
					pb, _ := json.Marshal(it.Params)
					fmt.Fprintf(os.Stderr, "done %s %s %s paths=%d %.1fs\n", it.Spec.Name, pb, res.Status, res.Paths, time.Since(t0).Seconds())
				}
			}
		}()
	}
	for _, it := range items {
		ch <- it
	}
	close(ch)
	wg.Wait()
	return out, firstErr
}

func parseKV(args []string) map[string][]int {
	ps := map[string][]int{}
	for _, a := range args {
		kv := strings.SplitN(a, "=", 2)
		if len(kv) != 2 {
			continue
		}
		for _, s := range strings.Split(kv[1], ",") {
			if strings.Contains(s, "..") {
				ab := strings.SplitN(s, "..", 2)
				lo, _ := strconv.Atoi(ab[0])
				hi, _ := strconv.Atoi(ab[1])
				for i := lo; i <= hi; i++ {
					ps[kv[0]] = append(ps[kv[0]], i)
				}
				continue
			}
			v, _ := strconv.Atoi(s)
			ps[kv[0]] = append(ps[kv[0]], v)
		}
	}
	return ps
}

func main() {
	if len(os.Args) < 2 {
		fmt.Fprintln(os.Stderr, "usage: vcheck run|harness|replay|list|selftest ...")
		os.Exit(2)
	}
	switch os.Args[1] {
	case "run":
		fs := flag.NewFlagSet("run", flag.ExitOnError)
		prop := fs.String("property", "", "property id")
		tier := fs.String("tier", "", "quick|thorough")
		workers := fs.Int("workers", runtime.NumCPU(), "workers")
		fs.Parse(os.Args[2:])
		if *tier == "" {
			*tier = os.Getenv("VERIF_TIER")
		}
		if *tier == "" {
			*tier = "quick"
		}
		os.Exit(runProperty(*prop, *tier, *workers))
	case "harness":
		fs := flag.NewFlagSet("harness", flag.ExitOnError)
		trace := fs.Bool("trace", false, "trace instructions")
		workers := fs.Int("workers", runtime.NumCPU(), "workers")
		wit := fs.Int("witness", 0, "witnesses per item")
		verbose := fs.Bool("v", false, "verbose")
		fs.Parse(os.Args[2:])
		rest := fs.Args()
		if len(rest) < 1 {
			fmt.Fprintln(os.Stderr, "usage: vcheck harness [-trace] <name> [k=v,...]")
			os.Exit(2)
		}
		os.Exit(runHarnessCLI(rest[0], parseKV(rest[1:]), *workers, *wit, *trace, *verbose))
	case "replay":
		if len(os.Args) < 3 {
			fmt.Fprintln(os.Stderr, "usage: vcheck replay <path>")
			os.Exit(2)
		}
		os.Exit(replayFile(os.Args[2]))
	case "list":
		for _, s := range allSpecs() {
			fmt.Printf("%-6s %-22s pkg=%s\n", s.Property, s.Name, s.Pkg)
		}
	case "count":
		// work items per property and harness for a tier (planning aid)
		tier := "quick"
		if len(os.Args) > 2 {
			tier = os.Args[2]
		}
		tot := map[string]int{}
		for _, s := range allSpecs() {
			n := len(s.tuples(tier))
			tot[s.Property] += n
			fmt.Printf("%-5s %-16s %6d\n", s.Property, s.Name, n)
		}
		for p, n := range tot {
			fmt.Printf("TOTAL %-5s %6d\n", p, n)
		}
	case "selftest":
		os.Exit(selftest())
	default:
		fmt.Fprintln(os.Stderr, "unknown command", os.Args[1])
		os.Exit(2)
	}
}

func runHarnessCLI(name string, ps map[string][]int, workers, wit int, trace, verbose bool) int {
	var spec *HarnessSpec
	for _, s := range allSpecs() {
		if s.Name == name {
			spec = s
		}
	}
	if spec == nil {
		fmt.Fprintln(os.Stderr, "unknown harness", name)
		return 2
	}
	P, err := loadProgram()
	if err != nil {
		fmt.Fprintln(os.Stderr, "load:", err)
		return 3
	}
	fmt.Printf("loaded in %.1fs\n", P.loadS)
	var items []WorkItem
	for _, g := range spec.Quick {
		base := map[string][]int{}
		for k, v := range g {
			base[k] = v
		}
		for k, v := range ps {
			base[k] = v
		}
		for _, p := range cartesian(base) {
			items = append(items, WorkItem{Spec: spec, Params: p, Idx: len(items)})
		}
	}
	t0 := time.Now()
	res, err := runItems(P, items, workers, wit, trace)
	if err != nil {
		fmt.Fprintln(os.Stderr, "error:", err)
	}
	code := 0
	var paths, instrs int64
	var q int
	for _, r := range res {
		paths += r.Res.Paths
		instrs += r.Res.Instrs
		q += r.Res.Solver.Queries
		if verbose || r.Res.Status != "ok" {
			b, _ := json.Marshal(r.Item.Params)
			fmt.Printf("%s %s: %s %s paths=%d instrs=%d queries=%d (%.1fs solver %.1fs) unknownFeas=%d\n", name, b, r.Res.Status, r.Res.Reason,
				r.Res.Paths, r.Res.Instrs, r.Res.Solver.Queries, r.Wall, r.Res.Solver.WallS, r.Res.UnknownFeas)
			for _, v := range r.Res.Violations {
				b, _ := json.Marshal(v)
				fmt.Printf("  candidate: %s\n", b)
			}
			if verbose {
				for id, st := range r.Res.AssertStats {
					fmt.Printf("  assert %s: paths=%d discharged=%d violated=%d\n", id, st.Paths, st.Discharged, st.Violated)
				}
				for _, w := range r.Res.Witnesses {
					b, _ := json.Marshal(w)
					fmt.Printf("  witness: %s\n", b)
				}
			}
		}
		if r.Res.Status == "violation" && code == 0 {
			code = 1
		}
		if r.Res.Status == "inconclusive" {
			code = 3
		}
	}
	fmt.Printf("items=%d paths=%d instrs=%d queries=%d wall=%.1fs exit=%d\n", len(items), paths, instrs, q, time.Since(t0).Seconds(), code)
	return code
}

func instrLimit() int64 {
	if v := os.Getenv("VERIF_INSTR_LIMIT"); v != "" {
		n, _ := strconv.ParseInt(v, 10, 64)
		return n
	}
	return 400_000_000
}

func itemTimeout() int {
	if v := os.Getenv("VERIF_ITEM_TIMEOUT"); v != "" {
		n, _ := strconv.Atoi(v)
		return n
	}
	return 900
}
