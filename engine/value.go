package main

// Value model: scalars are *Term; the heap is a set of Objects with flat cell arrays;
// pointers, slices, strings, interfaces, maps and closures always have concrete shape.

import (
	"fmt"
	"go/constant"
	"go/types"
	"strings"

	"golang.org/x/tools/go/ssa"
)

type value interface{}

type Object struct {
	id      int
	cells   []value
	epoch   int
	tag     string
	mon     int     // monitor class (0 = none); writes to monitored objects are recorded
	aliasOf *Object // codec stub: bytes derived from (possibly aliasing) that object
}

type Ptr struct {
	obj *Object
	idx int
}

// SymPtr points at obj.cells[off+i] for a symbolic element index i in [lo,hi].
type SymPtr struct {
	obj    *Object
	off    int
	idx    *Term
	lo, hi int
}

type Slice struct {
	obj           *Object
	off, len, cap int
	esz           int
}

// Str is an immutable string: concrete (b == nil) or with symbolic bytes (len(b) bytes).
type Str struct {
	s string
	b []*Term
}

type Iface struct {
	t types.Type
	v value
}

type MapObj struct {
	id    int
	keys  []value
	vals  []value
	live  []bool
	n     int
	epoch int
}

type Func struct {
	fn     *ssa.Function
	env    []value
	native *nativeFn
}

type nativeFn struct {
	name string
	f    func(m *Machine, args []value) value
}

type Agg []value
type Tuple []value
type Float float64

// mapIter is the state of a Range over a map or string.
type mapIter struct {
	obj *Object // cells[0] = position (*Term const)
	mp  *MapObj
	str Str
	isS bool
	ord []int
}

// opaque reflection value
type reflVal struct {
	v value
	t types.Type
}
type reflType struct{ t types.Type }

func (s Str) Len() int {
	if s.b != nil {
		return len(s.b)
	}
	return len(s.s)
}

func (s Str) IsConc() bool { return s.b == nil }

func (s Str) At(tb *TB, i int) *Term {
	if s.b != nil {
		return s.b[i]
	}
	return tb.Const(8, uint64(s.s[i]))
}

func (s Str) Sub(lo, hi int) Str {
	if s.b != nil {
		if lo == hi {
			return Str{}
		}
		return Str{b: s.b[lo:hi]}
	}
	return Str{s: s.s[lo:hi]}
}

func (s Str) Bytes(tb *TB) []*Term {
	if s.b != nil {
		return s.b
	}
	r := make([]*Term, len(s.s))
	for i := 0; i < len(s.s); i++ {
		r[i] = tb.Const(8, uint64(s.s[i]))
	}
	return r
}

func mkStr(bs []*Term) Str {
	conc := true
	for _, b := range bs {
		if !b.IsConst() {
			conc = false
			break
		}
	}
	if conc {
		var sb strings.Builder
		for _, b := range bs {
			sb.WriteByte(byte(b.k))
		}
		return Str{s: sb.String()}
	}
	return Str{b: bs}
}

// ---------- type layout ----------

type layout struct {
	n map[types.Type]int
}

func isReflValue(t types.Type) bool {
	if n, ok := t.(*types.Named); ok {
		o := n.Obj()
		if o.Pkg() != nil && o.Pkg().Path() == "reflect" && o.Name() == "Value" {
			return true
		}
	}
	return false
}

func isAggType(t types.Type) bool {
	if isReflValue(t) {
		return false
	}
	switch t.Underlying().(type) {
	case *types.Struct, *types.Array:
		return true
	}
	return false
}

func (m *Machine) ncells(t types.Type) int {
	if n, ok := m.lay.n[t]; ok {
		return n
	}
	n := 1
	if isReflValue(t) {
		n = 1
	} else {
		switch u := t.Underlying().(type) {
		case *types.Struct:
			n = 0
			for i := 0; i < u.NumFields(); i++ {
				n += m.ncells(u.Field(i).Type())
			}
		case *types.Array:
			n = int(u.Len()) * m.ncells(u.Elem())
		case *types.TypeParam:
			panic(abortErr{"type parameter in layout: " + t.String()})
		}
	}
	m.lay.n[t] = n
	return n
}

func (m *Machine) fieldOff(st *types.Struct, i int) int {
	off := 0
	for j := 0; j < i; j++ {
		off += m.ncells(st.Field(j).Type())
	}
	return off
}

func intInfo(t types.Type) (w uint8, signed bool, ok bool) {
	b, isB := t.Underlying().(*types.Basic)
	if !isB {
		return 0, false, false
	}
	switch b.Kind() {
	case types.Int8:
		return 8, true, true
	case types.Int16:
		return 16, true, true
	case types.Int32:
		return 32, true, true
	case types.Int64, types.Int, types.UntypedInt, types.UntypedRune:
		return 64, true, true
	case types.Uint8:
		return 8, false, true
	case types.Uint16:
		return 16, false, true
	case types.Uint32:
		return 32, false, true
	case types.Uint64, types.Uint, types.Uintptr:
		return 64, false, true
	}
	if b.Kind() == types.UntypedRune {
		return 32, true, true
	}
	return 0, false, false
}

func isBoolType(t types.Type) bool {
	b, ok := t.Underlying().(*types.Basic)
	return ok && b.Info()&types.IsBoolean != 0
}
func isStringType(t types.Type) bool {
	b, ok := t.Underlying().(*types.Basic)
	return ok && b.Info()&types.IsString != 0
}
func isFloatType(t types.Type) bool {
	b, ok := t.Underlying().(*types.Basic)
	return ok && b.Info()&types.IsFloat != 0
}

// zero returns the zero value of a type as a register value.
func (m *Machine) zero(t types.Type) value {
	if isAggType(t) {
		n := m.ncells(t)
		a := make(Agg, n)
		m.zeroCells(t, a)
		return a
	}
	return m.zero1(t)
}

func (m *Machine) zero1(t types.Type) value {
	if isReflValue(t) {
		return reflVal{}
	}
	switch u := t.Underlying().(type) {
	case *types.Basic:
		if w, _, ok := intInfo(u); ok {
			return m.tb.Const(w, 0)
		}
		switch {
		case u.Info()&types.IsBoolean != 0:
			return m.tb.False
		case u.Info()&types.IsString != 0:
			return Str{}
		case u.Info()&types.IsFloat != 0:
			return Float(0)
		case u.Kind() == types.UnsafePointer:
			return Ptr{}
		case u.Kind() == types.UntypedNil:
			return nil
		}
		panic(abortErr{"zero of basic type " + t.String()})
	case *types.Pointer:
		return Ptr{}
	case *types.Slice:
		return Slice{esz: m.ncells(u.Elem())}
	case *types.Map:
		return (*MapObj)(nil)
	case *types.Interface:
		return Iface{}
	case *types.Signature:
		return Func{}
	case *types.Chan:
		return nil
	}
	panic(abortErr{"zero of type " + t.String()})
}

func (m *Machine) zeroCells(t types.Type, dst []value) {
	if !isAggType(t) {
		dst[0] = m.zero1(t)
		return
	}
	switch u := t.Underlying().(type) {
	case *types.Struct:
		off := 0
		for i := 0; i < u.NumFields(); i++ {
			ft := u.Field(i).Type()
			n := m.ncells(ft)
			m.zeroCells(ft, dst[off:off+n])
			off += n
		}
	case *types.Array:
		n := m.ncells(u.Elem())
		if n == 0 {
			return
		}
		if !isAggType(u.Elem()) {
			z := m.zero1(u.Elem())
			for i := range dst {
				dst[i] = z
			}
			return
		}
		for i := 0; i < int(u.Len()); i++ {
			m.zeroCells(u.Elem(), dst[i*n:(i+1)*n])
		}
	}
}

func (m *Machine) newObject(n int, tag string) *Object {
	m.nextObj++
	return &Object{id: m.nextObj, cells: make([]value, n), epoch: m.epoch, tag: tag}
}

func (m *Machine) newZeroObject(t types.Type, tag string) *Object {
	n := m.ncells(t)
	o := m.newObject(n, tag)
	if n > 0 {
		m.zeroCells(t, o.cells)
	}
	return o
}

// constValue converts an ssa.Const.
func (m *Machine) constValue(c *ssa.Const) value {
	t := c.Type()
	if c.Value == nil {
		if _, ok := t.Underlying().(*types.Basic); ok && t.Underlying().(*types.Basic).Kind() == types.UntypedNil {
			return nil
		}
		return m.zero(t)
	}
	if w, signed, ok := intInfo(t); ok {
		v := constant.ToInt(c.Value)
		if signed {
			i, _ := constant.Int64Val(v)
			return m.tb.Const(w, uint64(i))
		}
		u, exact := constant.Uint64Val(v)
		if !exact {
			i, _ := constant.Int64Val(v)
			u = uint64(i)
		}
		return m.tb.Const(w, u)
	}
	switch {
	case isBoolType(t):
		return m.tb.Bool(constant.BoolVal(c.Value))
	case isStringType(t):
		return Str{s: constant.StringVal(c.Value)}
	case isFloatType(t):
		f, _ := constant.Float64Val(c.Value)
		return Float(f)
	}
	panic(abortErr{fmt.Sprintf("const of type %s", t)})
}

func typeString(t types.Type) string {
	return types.TypeString(t, nil)
}
