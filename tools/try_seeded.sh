#!/bin/bash
# usage: try_seeded.sh <patch.diff> <property> [tier]
# applies the patch to /repo, runs the property's check, reverts.  Never leaves /repo dirty.
set -u
patch=$1; prop=$2; tier=${3:-quick}
cd /repo || exit 2
if [ -n "$(git status --porcelain)" ]; then echo "/repo is dirty"; exit 2; fi
git apply "$patch" || { echo "patch does not apply"; exit 2; }
cd /verif
timeout 3000 ./bin/vcheck run --property "$prop" --tier "$tier" > /tmp/try_$prop.out 2>&1
rc=$?
git -C /repo checkout -- .
git -C /repo status --porcelain
grep -c "^VIOLATION" /tmp/try_$prop.out
grep "^VIOLATION" -A1 /tmp/try_$prop.out | head -6 | cut -c1-400
grep "^INCONCLUSIVE" /tmp/try_$prop.out | head -3 | cut -c1-400
tail -1 /tmp/try_$prop.out | cut -c1-300
echo "exit=$rc"
