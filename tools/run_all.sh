#!/bin/bash
# usage: run_all.sh [tier] [props...]  -- runs the registered commands one after another against /repo,
# writes /verif/evidence/*.json, prints one summary line per property.
tier=${1:-quick}; shift
props=${@:-C01 C02 C03 C04 C05 C06 C07 C08 C09 C10 C11 C12 C13 C14 C15 C16 C17 C18 C19 C20}
cd /verif
for p in $props; do
  t0=$(date +%s)
  ./bin/vcheck run --property $p --tier $tier > /tmp/all_$p.out 2>&1; rc=$?
  t1=$(date +%s)
  echo "$p rc=$rc wall=$((t1-t0))s $(grep -c '^VIOLATION' /tmp/all_$p.out) viol $(grep -c '^INCONCLUSIVE' /tmp/all_$p.out) inconcl | $(tail -1 /tmp/all_$p.out | cut -c1-200)"
done
