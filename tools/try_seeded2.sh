#!/bin/bash
# usage: try_seeded2.sh <patch.diff> <property> [tier]
# like try_seeded.sh but works on a scratch copy of /repo (VERIF_REPO), so /repo is never touched and
# several can run side by side.  Evidence goes to a scratch directory.
set -u
patch=$1; prop=$2; tier=${3:-quick}
d=/tmp/mr_$prop.$$
rm -rf $d; mkdir -p $d && git -C /repo archive HEAD | tar -x -C $d || exit 2
(cd $d && git init -q . && git apply "$patch") || { echo "patch does not apply"; rm -rf $d; exit 2; }
cd /verif
VERIF_REPO=$d VERIF_EVIDENCE_DIR=/tmp/ev_mut timeout 3000 ${VCHECK:-./bin/vcheck} run --property "$prop" --tier "$tier" > /tmp/try_$prop.out 2>&1
rc=$?
rm -rf $d
grep -c "^VIOLATION" /tmp/try_$prop.out
grep "^VIOLATION" -A1 /tmp/try_$prop.out | head -6 | cut -c1-400
grep "^INCONCLUSIVE" /tmp/try_$prop.out | head -3 | cut -c1-400
tail -1 /tmp/try_$prop.out | cut -c1-300
echo "exit=$rc"
