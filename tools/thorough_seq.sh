#!/bin/bash
export GOFLAGS=-mod=mod GOPROXY=off GOSUMDB=off GOTOOLCHAIN=local
cd engine && go build -o ../bin/vcheck . && cd .. && mkdir -p ev
for p in "$@"; do
  t0=$(date +%s)
  VERIF_DIR=$PWD VERIF_EVIDENCE_DIR=$PWD/ev timeout 1500 ./bin/vcheck run --property $p --tier thorough --workers 8 > out_$p.txt 2>&1; rc=$?
  t1=$(date +%s)
  echo "THOROUGH $p rc=$rc wall=$((t1-t0))s viol=$(grep -c '^VIOLATION' out_$p.txt) inconcl=$(grep -c '^INCONCLUSIVE' out_$p.txt) | $(tail -1 out_$p.txt | cut -c1-160)"
  grep '^INCONCLUSIVE' out_$p.txt | head -3 | cut -c1-300
done
