#!/usr/bin/env python3
"""seeded_add.py <seed-id> <outdir> <property> <detected: yes|no> <caught_by text>
Copies a confirmed seeded change into /verif/seeded/<seed-id>/ and regenerates the README table."""
import json, os, shutil, sys, glob
sid, out, prop, detected, caught = sys.argv[1:6]
d = '/verif/seeded/' + sid
os.makedirs(d, exist_ok=True)
shutil.copy(out + '/patch.diff', d + '/patch.diff')
shutil.copy(out + '/demo_test.go', d + '/demo_test.go.txt')  # .txt: not part of any Go package here
meta = json.load(open(out + '/meta.json'))
conf = json.load(open(out + '/confirm.json'))
m = {
    'seed': sid, 'property': prop, 'package_dir': meta.get('package_dir', 'trie'),
    'what_it_breaks': meta.get('what_it_breaks', ''), 'needs_to_manifest': meta.get('needs_to_manifest', ''),
    'origin': 'written by an independent sub-agent that saw only the property text and a scratch worktree',
    'confirmed_by_me': conf,
    'what_i_ran': ['tools/confirm_seeded.sh (scratch worktree: git apply, go build ./..., full existing suite, demo with and without the change)',
                   'tools/try_seeded.sh patch.diff %s quick (git -C /repo apply; vcheck run; git -C /repo checkout -- .)' % prop],
    'detected_by_check': detected == 'yes', 'caught_by': caught,
}
if sid[0] in 'uv':
    m['what_i_ran'].insert(1, 'tools/try_seeded2.sh patch.diff %s quick (same check against a scratch copy of /repo with the patch applied, VERIF_REPO; used while a long run occupied /repo)' % prop)
json.dump(m, open(d + '/meta.json', 'w'), indent=1)
rows = []
for f in sorted(glob.glob('/verif/seeded/*/meta.json')):
    x = json.load(open(f))
    rows.append('| %s | %s | %s | %s | %s |' % (x['seed'], x['property'], x['what_it_breaks'].replace('|', '/').replace('\n', ' ')[:160], 'yes' if x['detected_by_check'] else 'NO', x['caught_by'].replace('|', '/')[:200]))
open('/verif/seeded/README.md', 'w').write('# Seeded changes\n\nEach directory holds `patch.diff` (apply with `git -C /repo apply`, undo with `git -C /repo checkout -- .`), the demonstration (`demo_test.go.txt`: copy into the package directory as a `_test.go` file) and `meta.json`.\n\n| seed | property | what it breaks | detected (quick tier) | caught by |\n|---|---|---|---|---|\n' + '\n'.join(rows) + '\n')
print('ok', sid)
