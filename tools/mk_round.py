#!/usr/bin/env python3
"""mk_round.py <round-letter> <Cxx> [<Cxx> ...]
Creates a scratch worktree /tmp/w<r>_<Cxx> of /repo and an empty output dir /tmp/o<r>_<Cxx>
for every property, and writes the prompt an independent sub-agent gets to
/tmp/prompt<r>_<Cxx>.txt.  The prompt contains only the property text, the paths, the
deliverable format and one-line descriptions of changes already collected for that
property (so the new one differs); nothing about /verif's checks."""
import json, glob, os, subprocess, sys

r = sys.argv[1]
props = {}
for l in open('/verif/properties.jsonl'):
    p = json.loads(l)
    props[p['id']] = p
earlier = {}
for f in sorted(glob.glob('/verif/seeded/*/meta.json')):
    m = json.load(open(f))
    earlier.setdefault(m['property'], []).append(m['what_it_breaks'][:300].replace('\n', ' '))

T = """You are helping to evaluate a verification setup for the Go library openacid/slim (a static succinct trie index, "SlimTrie").  You have your own scratch git worktree of the library at {wt} (module github.com/openacid/slim).  Work ONLY inside {wt} and {out}.  Do not read or touch /verif, /repo or any other worktree under /tmp.

Every shell call needs:  export GOFLAGS=-mod=mod GOPROXY=off GOSUMDB=off GOTOOLCHAIN=local   (no network; default go is 1.23, go.mod says go 1.12 so avoid generics / min / max / any in library and test code).

This semantic property of the library is supposed to hold:

  {pid}: {title}
  {stmt}

TASK.  Write ONE change to the library source (not to its tests) that BREAKS this property, while
  (a) the library still compiles (`go build ./...`),
  (b) the complete existing test suite still passes unedited:  cd {wt} && go test -vet=off -count=1 -timeout 25m ./...
  (c) the change looks like something a maintainer could plausibly commit (an optimisation, refactor, clean-up, cache, fast path, off-by-one in a boundary case ...), not sabotage, and
  (d) the breakage needs something SPECIFIC to manifest: an unusual input (particular byte values, lengths, alignments, counts), a multi-step sequence of operations, state that outlives one call, or two cooperating sites that each look fine alone.  Ordinary use must NOT expose it at once.

Changes of the following kinds were already collected for this property; yours must be a different idea, in a different place or mechanism:
{earlier}

DELIVERABLES, all in {out}/ :
  1. patch.diff      - `git -C {wt} diff` of the library change only (must apply with `git apply` on a clean checkout of the same commit).
  2. demo_test.go    - a Go test file for ONE package directory of the library (same package name as the package's own non-external tests, e.g. `package trie`), whose test functions are all named TestSeededDemo... ; it must FAIL with your change applied and PASS on the unchanged library.  It may only use what the module already vendors/caches.  It will be copied to <package_dir>/zz_seeded_demo_test.go and run with `go test -vet=off -count=1 -run TestSeededDemo ./<package_dir>`{race}.
  3. meta.json       - {{"property": "{pid}", "package_dir": "<dir of demo_test.go relative to the module root, e.g. trie>", "what_it_breaks": "<which clause, which function/file you changed and how>", "needs_to_manifest": "<the specific input / sequence / coincidence needed>"}}

Before you finish, verify all of this yourself: with the change applied run the full existing suite (must pass) and the demo (must fail); then `git -C {wt} stash` or checkout the library files, run the demo again (must pass); leave {wt} with your change applied and WITHOUT the demo file.  Your final message should be a three-line summary (file changed, what manifests it, results of the three runs).
"""

for pid in sys.argv[2:]:
    wt = '/tmp/w%s_%s' % (r, pid)
    out = '/tmp/o%s_%s' % (r, pid)
    os.makedirs(out, exist_ok=True)
    if not os.path.isdir(wt):
        subprocess.check_call(['git', '-C', '/repo', 'worktree', 'add', '--detach', '-f', wt, 'HEAD'],
                              stdout=subprocess.DEVNULL, stderr=subprocess.DEVNULL)
    p = props[pid]
    e = '\n'.join('  - ' + x for x in earlier.get(pid, [])) or '  (none yet)'
    race = ' (with -race for this property)' if pid == 'C11' else ''
    txt = T.format(wt=wt, out=out, pid=pid, title=p.get('title', ''), stmt=p.get('statement', p.get('text', '')), earlier=e, race=race)
    open('/tmp/prompt%s_%s.txt' % (r, pid), 'w').write(txt)
    print(pid, wt, out)
