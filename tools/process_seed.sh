#!/bin/bash
# usage: process_seed.sh <round> <Cxx> [tier]   -- confirm the agent's change in its scratch worktree, then run the
# property's check against a scratch copy with the change applied (VERIF_REPO).  /repo is never touched.
r=$1; p=$2; tier=${3:-quick}
cd /verif
echo "== confirm $p"; tools/confirm_seeded.sh $p /tmp/w${r}_$p /tmp/o${r}_$p
echo "== try $p $tier"; tools/try_seeded2.sh /tmp/o${r}_$p/patch.diff $p $tier
