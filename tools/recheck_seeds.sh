#!/bin/bash
# usage: recheck_seeds.sh Cxx  -- runs the property's quick check against every recorded seeded change of that
# property (scratch copies, /repo untouched) and prints the number of VIOLATION lines per seed.
p=$1
cd /verif
for d in seeded/*-$p-*; do
  n=$(tools/try_seeded2.sh $PWD/$d/patch.diff $p quick 2>/dev/null | head -1)
  echo "$(basename $d) violations=$n"
done
