#!/usr/bin/env python3
"""Regenerates /verif/MANIFEST.json from the table below (kept in one place so that the
claims, the not_applicable list and the commands stay consistent)."""
import json, sys

ALL = ["C%02d" % i for i in range(1, 21)]

ENV = "GOFLAGS=-mod=mod GOPROXY=off GOSUMDB=off GOTOOLCHAIN=local"
SETUP = "cd /verif/engine && %s go build -o /verif/bin/vcheck . && /verif/bin/vcheck selftest" % ENV

COMMON_NOTE = ("Trusted: the Go semantics implemented by symgo (own SSA executor), go/ssa, z3 5.1.0 (unknowns retried on z3 4.8.12/cvc5), "
               "the library intercepts of DESIGN.md §4. Every counterexample is replayed against the natively compiled real code before it is reported; "
               "sampled path witnesses are replayed natively on every run (traces_validated_against_impl).")

# property -> (claim text, design ref, extra note)
CLAIMS = {}

def claim(pid, text, ref, note="", category="model_checking", technique="bounded symbolic execution of the real code from go/ssa, SMT (z3) decides every branch and assertion; counterexamples replayed natively"):
    CLAIMS[pid] = dict(text=text, ref=ref, note=note, category=category, technique=technique)

claim("C01", "For all strictly ascending key sets within the stated bounds (fully symbolic bytes 0x00-0xff, n<=3 keys of length <=2 in the quick tier; all option cases; nil/U16/String16 values) and for listed concrete skeleton key sets (257-bit root, short-node table, prefix keys, caterpillar) the solver shows Get/GetID return every retained key with its own value, also while a second unrelated trie is built afterwards, with values behind a *TypeEncoder over a struct, and with symbolic String16 values of symbolic lengths 0..4 on tiny concrete key sets; bounded, not a proof.", "§7 C01")
claim("C02", "RangeGet on every indexed key returns the value supplied for it, for all key sets/values within the L2 bounds (every run layout of equal adjacent values is a model of the symbolic values) and for the L3 skeletons with concrete run patterns; variable-width values: tiny concrete key sets with symbolic String16 values of symbolic lengths 0..4, and lemma k_vlen over the leaf array.", "§7 C02")
claim("C03", "On Complete tries, Get/GetID/RangeGet/Search agree with a linear-scan oracle for an arbitrary symbolic query string (all byte values decided by the solver) within the stated key-set and query-length bounds.", "§7 C03")
claim("C09", "Search on every retained key returns exact neighbours in every option case, within the L2/L3 bounds.", "§7 C09")
claim("C10", "No panic path is feasible in Get/GetID/RangeGet/Search for any symbolic query within bounds, in any mode; hits are mutually consistent and carry supplied values (U16, nil, String16 incl. symbolic lengths 0..4 on concrete key sets, struct values behind a *TypeEncoder).", "§7 C10")
claim("C14", "GetI8/16/32/64 return the same flag and number as Get for symbolic values over the full integer range and symbolic queries, within the L2/L3 bounds, also on an instance that answered queries for data A and was then loaded with data B by a direct Unmarshal.", "§7 C14")
claim("C15", "Every integer encoder is decided over its complete machine range (value symbolic, 2^8..2^64 values at once): LE layout, round trip, four sizes agree, with 0..2 junk bytes; String16/Bytes/Dummy for enumerated lengths with symbolic content. TypeEncoder (harness k_enc_type): scalar, array, padded and nested struct types in both byte orders, also when an encoder of the other byte order was created first, over the encoding/binary layout model.", "§7 C15")
claim("C18", "Stat.KeyCnt equals the number of retained keys and the level table is consistent on every build path within the L2 bounds and on the L3 skeletons, and for tries loaded from legacy streams written by the validated writer models (n<=2 symbolic, listed skeletons).", "§7 C18")

claim("C04", "On Complete tries NewIter/ScanFrom/ScanFromTo with symbolic start/end strings, symbolic inclusivities and withValue yield exactly the t-th retained key in range with its encoded value and stay exhausted; decided for fully symbolic tries with n<=1, for n=2 over a 6-letter nibble-diverse alphabet (the scan code forks per label bit) and for listed skeleton tries; non-Complete tries must panic or still yield the right sequence.", "§7 C04")
claim("C08", "Without the ascending assumption the solver shows NewSlimTrie rejects (ErrKeyOutOfOrder, nil trie) exactly the key lists with a non-ascending neighbour pair (n<=3 symbolic keys; a symbolic pair inside a 64-key list); decStep(encStep(s))=s for every step the builder accepts (full int32 range); shared runs around 65535 half-bytes are refused or fully indexed.", "§7 C08")
claim("C13", "For one symbolic key/value list built in the four information levels, a hit in a mode storing more implies the same hit in every mode storing less; Complete is exact; retained keys answer identically; within the L2/L3 bounds.", "§7 C13")
claim("C19", "String() never panics, renders one line per node and the retained (concrete) values in key order on every build path within the L2 bounds and on skeleton tries with short-node tables (sizes 2,3) and a 257-bit root. Exact label text and table sizes 4..10 are outside the claim.", "§7 C19")

claim("C05", "Under assumption A-PB (protobuf modelled as an opaque injective codec over the message's proto3 normal form) Unmarshal(Marshal(t)) answers every query kind, scans and Stat identically for a symbolic query; re-marshalling and a second build give deep-equal messages under all map-iteration orders; sequences of Unmarshal/Reset on one instance (with Marshal, String and queries in between) leave no residue, and re-marshalling the reused instance reproduces what it holds now. Byte identity and the advertised size are facts about golang/protobuf's encoder: they are asserted on the natively replayed witnesses only.", "§7 C05", note="A-PB: proto.Marshal is a function of the message's proto3 normal form; Unmarshal(Marshal(m)) yields it in fresh memory.")
claim("C07", "The 16 version bytes of the header are symbolic: for every version string up to the stated length the real ReadHeader/verStr/vers.IsCompatible/semver.Parse either reject with ErrIncompatible or the string is one of the six compatible versions (+build metadata), free strings up to 6 bytes and symbolic continuations of the prefixes 0.5. / 0.5.1 / 1.0. / 0.5.9 / 0.5.12; every strict prefix of a valid stream (real header bytes, opaque body) is rejected without panic and without handing the codec a partial body; after a rejected load a trie that held symbolic data answers as empty.", "§7 C07", note="Cuts inside real protobuf bodies are represented by opaque bodies (no body byte is read before the length check, which is what the harness decides).")
claim("C11", "Sufficient condition decided with a write-set monitor: on every path of every read API (Get, GetID, RangeGet, Search, GetI32, Stat, ScanFrom, NewIter/next, String, Marshal down to the codec stub) with symbolic tries and queries no store hits an object reachable from the shared *SlimTrie that existed before the call, hence no data race and schedule-independent results; two interleaved iterators yield what each yields alone; value encoders U16, I32, String16 and a *TypeEncoder over a struct (the encoder object is part of the monitored state). A monitor finding is confirmed natively by running the call in two goroutines under go test -race before it is reported.", "§7 C11", note="Interleavings as such are not enumerated; golang/protobuf's Marshal (writes XXX_sizecache atomically) is trusted.", technique="bounded symbolic execution of the real code with a heap write-set monitor; SMT decides branches; findings confirmed with go test -race")
claim("C20", "NewSlimTrie performs no store into the caller's key slice, value slice or option structs (monitor + equality, all 18 option cases incl. nil fields); Unmarshal performs no store into the input buffer, the loaded trie cannot reach it on the heap (codec stub aliasing pessimistically) and answers are unchanged after it is overwritten with symbolic bytes; Marshal output is unreachable from the trie and overwriting it changes nothing (two live outputs are disjoint); caller-owned []byte values (encode.Bytes) are unreachable from the built trie and overwriting them changes no answer.", "§7 C20", note="A-PB: proto.Marshal returns fresh memory.")

claim("C12", "Symbolic records (keys, int64 offsets) indexed by the real NewSlimIndex with a key-verifying reader: Get (strictly increasing offsets) and RangeGet (non-decreasing block offsets, every block structure a model) return the stored record exactly for indexed keys and not-found for every other symbolic query, within n<=3 (quick), on listed concrete key sets with block sizes 1..64, and also after a second unrelated index has been built.", "§7 C12")
claim("C16", "Typed arrays built by the real constructors from symbolic ascending indexes (enumerated word, symbolic bit) and symbolic elements over the full element range answer typed Get / raw GetBytes / generic Array.Get as a sparse map for a symbolic probe inside the bitmap span, also after a round trip through the codec stub (A-PB) into the typed and the generic type, incl. struct elements with alignment padding through New and NewEmpty+load; invalid index lists are rejected with their dedicated errors and build nothing.", "§7 C16", note="encoding/binary Read/Write/Size are modelled (layout from go/types): generic decoding rests on that model.")
claim("C17", "Relational size check only (level other): see evidence coverage.explanation. The 8n+256 bound for large n and the exact serialized size are outside what a solver-based check of this code can reach.", "§7 C17", category="other", technique="bounded symbolic execution of the real builder; a structural size measure compared by the solver; real sizes on native replays")

claim("C06", "No old writer exists; two writer models (DESIGN Appendix G) are validated natively against all 97 archived fixtures at setup (assumption A-LW) and then executed symbolically: a symbolic key set is written in every pre-0.5.10 layout variant (u32 children with the first-child id in the upper half, 16-bit bitmap children, extended bitmaps, steps on leaves; headers 1.0.0/0.5.8/0.5.9) or rewritten into the 0.5.10/0.5.11 layout (nopref/innpref/allpref), loaded by the real Unmarshal (version dispatch and all converters) and must answer Get/RangeGet/Search for every key, exact absent-key answers and scans for allpref, also after the buffer is overwritten.", "§7 C06", note="A-LW: the historical writers produced, for any key set, what the two models produce (checked on every archived sample, unverifiable beyond them). A-PB for the opaque bodies. >65535 nodes and steps >255 nibbles with symbolic content are outside the bounds.")

# round-4 additions (appended to the claim texts above)
ROUND4 = {
    "C01": " Also with values behind an application encoder whose encodings are empty or two bytes (fixed-size leaf array with absent elements), and on length-diverse key sets (key lengths 0..300 bytes on and around 32/64/128/256) and a key that is also a 16-branch inner node.",
    "C02": " Also with the empty-or-two-byte application encoder and on the length-diverse key sets (0..300-byte keys).",
    "C03": " Also for queries that extend an indexed key by symbolic bytes and a concrete tail of 33..70 bytes, on length-diverse key sets (0..300-byte keys), and with the empty-or-two-byte application encoder.",
    "C09": " Also with the empty-or-two-byte application encoder and on the length-diverse key sets.",
    "C10": " Also for queries that extend an indexed key by symbolic bytes and a concrete tail of 33..70 bytes, on length-diverse key sets, and with an application encoder whose encodings are empty or two bytes.",
    "C04": " Also with an application encoder whose encodings are empty or two bytes (absent leaves inside a fixed-size leaf array) and on length-diverse key sets.",
    "C14": " Every indexed key is also used as the query for all four integer widths on 3..355-leaf tries (leaf byte counts that are not multiples of 8).",
    "C08": " Accepted-implies-correct is also decided while a second trie is built afterwards / after an earlier build.",
    "C12": " Also on indexes whose key lengths range over 0..300 bytes (on and around 32/64/128/256).",
    "C06": " Also a legacy node that holds a value and all 16 branches, and 0..300-byte keys, through both writer models.",
    "C13": " Also on length-diverse key sets and for queries that extend an indexed key by a 40-byte tail.",
    "C05": " Also on length-diverse key sets and for queries that extend an indexed key by a 40-byte tail.",
    "C19": " Also on length-diverse key sets and a 17-label node.",
}
for _p, _t in ROUND4.items():
    CLAIMS[_p]["text"] += _t

# round-5 additions
ROUND5 = {
    "C01": " Scale: a 6000-key concrete key set; a root with all 256 byte branches; partially filled option structs; key sets whose last inner node sits on the last bit of a node-type bitmap word.",
    "C04": " A second pair of scans after an iterator was polled past its end.",
    "C05": " With three Marshal outputs alive at once the instance loaded from one of them answers as the trie it was marshalled from.",
    "C06": " Scale: a 30000-key set (45000+ nodes) through the pre-0.5.10 writer model.",
    "C08": " Accepted variable-width values (symbolic String16 lengths, empty-or-two-byte encoder) are read back (lemma k_vlen).",
    "C11": " Also on skeleton tries (l3_nowrite), and the caller rewriting the Stat report it was handed reaches no shared state.",
    "C12": " Also a root with all 256 byte branches.",
    "C14": " Also key sets whose last inner node sits on the last bit of a node-type bitmap word.",
    "C15": " Also TypeEncoders over application-defined named integer types (the decoded value has the named type).",
    "C16": " Also elements of a named integer type through the generic array (New / NewEmpty + load).",
    "C17": " Also after an earlier build that was given a partially filled option struct.",
    "C18": " Also with values whose encoding is empty for some retained keys.",
    "C19": " Every line names its node and each node id 0..NodeCnt-1 appears exactly once, also on a 6000-key trie (7892 nodes).",
    "C20": " The caller's [][]byte value slice is unchanged element by element after the build.",
}
for _p, _t in ROUND5.items():
    CLAIMS[_p]["text"] += _t

# round-6 additions
ROUND6 = {
    "C02": " Also nested 257-bit nodes where the first twelve keys share one value.",
    "C04": " Also the empty start / end string with both inclusivities.",
    "C05": " A trie loaded from a region that continues after the stream answers the same and re-marshals to the stream alone.",
    "C06": " Also keys-only 0.5.10/0.5.11 streams that store prefixes.",
    "C08": " Also prefix keys of 9..63 bytes followed by a separator byte below 0x10.",
    "C11": " Also queries that extend an indexed key by a 40-byte tail under the monitor.",
    "C12": " Also prefix keys of 9..63 bytes followed by a separator byte below 0x10, and shared runs of 2047..40000 bytes in front of a 257-bit node (refused only beyond the documented key length).",
    "C13": " Also while an unrelated trie that stores prefixes is built after the four levels.",
    "C15": " A result of Encode stays intact while the encoder is used again.",
    "C16": " Also when big-endian encoders for the element types are requested between building and NewEmpty.",
    "C17": " The size after loading from a longer region and re-marshalling equals the size of the index.",
    "C18": " On concrete key sets the level table equals the one recomputed through the query path's node decoder.",
    "C20": " Values shorter than the encoder's nominal size carved out of one caller-owned buffer: the buffer is not written.",
}
for _p, _t in ROUND6.items():
    CLAIMS[_p]["text"] += _t

def main():
    checks = []
    for pid in ALL:
        if pid not in CLAIMS:
            continue
        c = CLAIMS[pid]
        checks.append({
            "property_id": pid,
            "quick_cmd": "/verif/bin/vcheck run --property %s --tier quick" % pid,
            "thorough_cmd": "/verif/bin/vcheck run --property %s --tier thorough" % pid,
            "evidence_file": "/verif/evidence/%s.json" % pid,
            "replay_cmd_template": "/verif/bin/vcheck replay {path}",
            "engine": "symgo",
            "level_claimed": {"category": c["category"], "text": c["text"], "design_ref": "DESIGN.md " + c["ref"]},
            "level_note": (c["note"] + " " if c["note"] else "") + COMMON_NOTE,
            "technique": c["technique"],
        })
    na = []
    reasons = json.load(open("/verif/tools/not_applicable.json"))
    for pid in ALL:
        if pid not in CLAIMS:
            na.append({"property_id": pid, "reason": reasons.get(pid, "check not built yet (in progress)")})
    m = {
        "version": 1,
        "setup_cmd": SETUP,
        "hooks": {"guard": "verif",
                  "enable": "harness files carry //go:build verif and are injected into the packages under test with -overlay (go/packages Overlay for the encoder, go test -overlay for native replay); /repo carries no instrumentation",
                  "baseline_off_cmd": "cd /repo && GOFLAGS=-mod=mod go test -vet=off -count=1 -timeout 25m ./...",
                  "source_commits": [], "add_only": True},
        "engines": [{"name": "symgo", "path": "/verif/engine", "serves_properties": sorted(CLAIMS.keys()),
                     "kind_free_text": "path-forking symbolic executor for Go SSA (golang.org/x/tools v0.29.0) with an SMT-LIB2 back end (z3 5.1.0 over a pipe, push/pop); harnesses are in-package Go files under /verif/harness injected by overlay"}],
        "checks": checks,
        "notes": "All checks are bounded (see evidence bounds per harness); genuine defects found are repaired in /repo by 'fix:' commits and listed as fixed in /verif/known_findings.json. Tiers: the thorough command runs the quick grids plus deeper grids for the properties whose deeper grids ran to completion, clean, on the unchanged tree (C07, C08, C13, C15, C16, C17, C19, C20; for C01, C02, C09, C18 the concrete-key-set (L3) part of the deeper grids); for the other properties and parts the deeper grids did not finish inside the cap or could not be run in the time available and are kept unregistered (tier deep in engine/specs.go), so their thorough command runs the quick grids: a bound is registered only after it has run clean (DESIGN.md 13.1).",
        "not_applicable": na,
    }
    json.dump(m, open("/verif/MANIFEST.json", "w"), indent=1)
    print("checks:", len(checks), "not_applicable:", len(na))

main()
