#!/bin/bash
# usage: confirm_seeded.sh <id> <worktree> <outdir>
# Confirms a seeded change in a scratch worktree: compiles, existing suite passes,
# demonstration fails with the change and passes without it.
export GOFLAGS=-mod=mod GOPROXY=off GOSUMDB=off GOTOOLCHAIN=local
id=$1; wt=$2; out=$3
pkg=$(python3 -c "import json;print(json.load(open('$out/meta.json')).get('package_dir','trie'))")
cd $wt || exit 2
git checkout -q -- . ; rm -f $pkg/zz_seeded_demo_test.go
git apply $out/patch.diff || { echo '{"applies":false}' > $out/confirm.json; exit 1; }
build=fail; go build ./... >/dev/null 2>&1 && build=ok
suite=fail; go test -vet=off -count=1 -timeout 25m ./... > $out/confirm_suite.log 2>&1 && suite=ok
cp $out/demo_test.go $pkg/zz_seeded_demo_test.go
race=""; [ "$id" = "C11" ] && race="-race"
with=pass; go test $race -vet=off -count=1 -run 'TestSeededDemo' ./$pkg > $out/confirm_demo_with.log 2>&1 || with=fail
rm -f $pkg/zz_seeded_demo_test.go
git checkout -q -- .
cp $out/demo_test.go $pkg/zz_seeded_demo_test.go
without=fail; go test $race -vet=off -count=1 -run 'TestSeededDemo' ./$pkg > $out/confirm_demo_without.log 2>&1 && without=pass
rm -f $pkg/zz_seeded_demo_test.go
git checkout -q -- .
echo "{\"applies\":true,\"build\":\"$build\",\"existing_suite\":\"$suite\",\"demo_with_change\":\"$with\",\"demo_without_change\":\"$without\"}" > $out/confirm.json
cat $out/confirm.json
