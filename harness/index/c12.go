//go:build verif
// +build verif

package index

// C12 — SlimIndex plus a key-verifying reader behaves as an exact map.

func init() {
	vRegister("ix_exact", H_ix_exact)
}

type vRecReader struct {
	keys []string
	offs []int64
	recs []string
}

// Read scans the block starting at offset and returns the record whose key equals key
// (a data reader that verifies the record key, as the package documentation requires).
func (r *vRecReader) Read(offset int64, key string) (string, bool) {
	for i := range r.keys {
		if r.offs[i] == offset && vStrEq(r.keys[i], key) {
			return r.recs[i], true
		}
	}
	return "", false
}

func vLens(code, n, L int) []int {
	ls := make([]int, n)
	for i := 0; i < n; i++ {
		ls[i] = code % (L + 1)
		code /= (L + 1)
	}
	return ls
}

func H_ix_exact() {
	n := vParam("n")
	lens := vLens(vParam("lens"), n, vParam("L"))
	mode := vParam("mode") // 0: one offset per key (Get); 1: block offsets (RangeGet)
	keys := make([]string, n)
	for i := range keys {
		keys[i] = vString("k", lens[i])
	}
	for i := 0; i+1 < n; i++ {
		vAssume(vStrLt(keys[i], keys[i+1]))
	}
	offs := make([]int64, n)
	recs := make([]string, n)
	items := make([]OffsetIndexItem, n)
	for i := range offs {
		offs[i] = vI64("off")
		if i > 0 {
			if mode == 0 {
				vAssume(offs[i-1] < offs[i])
			} else {
				vAssume(offs[i-1] <= offs[i]) // equal neighbours share a block
			}
		}
		recs[i] = string([]byte{'r', byte('0' + i)})
		items[i] = OffsetIndexItem{Key: keys[i], Offset: offs[i]}
	}
	dr := &vRecReader{keys: keys, offs: offs, recs: recs}
	si, err := NewSlimIndex(items, dr)
	vAssert(err == nil, "build-ok")
	if err != nil {
		vAssume(false)
	}
	q := vString("q", vParam("lq"))
	var rec string
	var found bool
	if mode == 0 {
		rec, found = si.Get(q)
	} else {
		rec, found = si.RangeGet(q)
	}
	has := false
	okRec := true
	for i := range keys {
		eq := vStrEq(keys[i], q)
		has = vOr(has, eq)
		okRec = vAnd(okRec, vImplies(eq, vAnd(found, rec == recs[i])))
	}
	vAssert(found == has, "C12.found-iff-indexed")
	vAssert(okRec, "C12.record")
	vObserve("found", found)
	vReach("end")
}
