//go:build verif
// +build verif

package index

// C12 — SlimIndex plus a key-verifying reader behaves as an exact map.

func init() {
	vRegister("ix_exact", H_ix_exact)
	vRegister("ix_skel", H_ix_skel)
	vRegister("ix_longrun", H_ix_longrun)
}

// vIxKeys: concrete key sets with the shapes that matter below the index: id 7 = a 257-bit
// root over 15 plain 17-bit nodes (Inners bitmap exactly 512 bits, last bit set);
// id >= 100: vSweep(id-100) (the sweep family of the trie harnesses; 54, 94, 242 have a
// 64-aligned bitmap length / leaf count / inner-node count).
func vIxKeys(id int) []string {
	if id == 12 || id == 13 {
		return vLenDiverse(id - 12)
	}
	if id == 17 || id == 18 {
		return vFullByteFan(id == 18)
	}
	if id == 23 || id == 24 {
		return vPrefixLowByte(id == 24)
	}
	if id >= 100 {
		return vSweep(id - 100)
	}
	var ks []string
	for i := 0; i < 15; i++ {
		b := byte(0x11 + i*0x0f)
		lo, hi := byte(i%15), byte(15)
		if i == 14 {
			lo = 13
		}
		ks = append(ks, string([]byte{b, lo << 4}), string([]byte{b, hi<<4 | byte(i)}))
	}
	return vUniqSorted(ks)
}

// vPrefixLowByte: under eight first bytes, a key K of 9, 10, 15, 17, 25, 33, 41 or 63 bytes that
// is a proper prefix of the key(s) after it, which continue with a byte below 0x10 (a
// separator): pairs {K, K+0x05}, or triples {K, K+"\x00email", K+"\x00name"}.
func vPrefixLowByte(triples bool) []string {
	base := make([]byte, 64)
	for i := range base {
		base[i] = byte('a' + (i*7+i/13)%23)
	}
	var ks []string
	for i, l := range []int{9, 10, 15, 17, 25, 33, 41, 63} {
		k := string(append([]byte{byte('A' + i)}, base[:l-1]...))
		if triples {
			ks = append(ks, k, k+"\x00email", k+"\x00name")
		} else {
			ks = append(ks, k, k+"\x05")
		}
	}
	return ks
}

// vFullByteFan: the 256 one-byte keys 0x00..0xff, two of them extended (so the root is not the
// only inner node), optionally with the empty key.
func vFullByteFan(withEmpty bool) []string {
	var ks []string
	if withEmpty {
		ks = append(ks, "")
	}
	for b := 0; b < 256; b++ {
		ks = append(ks, string([]byte{byte(b)}))
		if b == 0x7f || b == 0xff {
			ks = append(ks, string([]byte{byte(b), 0x00}), string([]byte{byte(b), 0xff}))
		}
	}
	return ks
}

// vLenDiverse: keys whose lengths sit on and around 32/64/128/256-byte boundaries: a chain
// of prefixes of one 300-byte pattern (lengths 0, 1, 31, 32, 33, 63, 64, 65, 127, 128, 129,
// 255, 256, 257, 300), plus for kind 1 a diverging sibling (prefix + 0xff + 40 bytes) at
// every length.  Short and very long keys live in one index.
func vLenDiverse(kind int) []string {
	base := make([]byte, 300)
	for i := range base {
		base[i] = byte('a' + (i*7+i/13)%23)
	}
	var ks []string
	for _, l := range []int{0, 1, 31, 32, 33, 63, 64, 65, 127, 128, 129, 255, 256, 257, 300} {
		ks = append(ks, string(base[:l]))
		if kind == 1 {
			sib := append(append([]byte{}, base[:l]...), 0xff)
			for j := 0; j < 40; j++ {
				sib = append(sib, byte('A'+j%5))
			}
			ks = append(ks, string(sib))
		}
	}
	return vUniqSorted(ks)
}

// Long shared runs in front of a 257-bit node: `fan` keys P + distinct byte + "x" with |P| = run.
// The index is either refused (only beyond the documented 16 KiB key length) or an exact map
// for its own keys.
func H_ix_longrun() {
	run := vParam("run")
	fan := vParam("fan")
	p := make([]byte, run)
	for i := range p {
		p[i] = 'a'
	}
	P := string(p)
	var keys []string
	for i := 0; i < fan; i++ {
		keys = append(keys, P+string([]byte{byte(0x08 + i*0x0f)})+"x")
	}
	n := len(keys)
	offs := make([]int64, n)
	recs := make([]string, n)
	items := make([]OffsetIndexItem, n)
	for i := range keys {
		offs[i] = int64(i) * 512
		recs[i] = string([]byte{'r', byte('a' + i)})
		items[i] = OffsetIndexItem{Key: keys[i], Offset: offs[i]}
	}
	dr := &vRecReader{keys: keys, offs: offs, recs: recs}
	si, err := NewSlimIndex(items, dr)
	if err != nil {
		vAssert(run > 16384, "C12.within-limits-accepted")
		vReach("end")
		return
	}
	okAll := true
	for i := range keys {
		rec, found := si.Get(keys[i])
		okAll = vAnd(okAll, found && rec == recs[i])
		rec, found = si.RangeGet(keys[i])
		okAll = vAnd(okAll, found && rec == recs[i])
	}
	vAssert(okAll, "C12.indexed-found")
	// a query that differs from a key in its last byte only is not found
	q := P + string([]byte{0x08}) + vString("q", 1)
	_, found := si.Get(q)
	vAssert(found == vStrEq(q, keys[0]), "C12.found-iff-indexed")
	vObserve("found", found)
	vReach("end")
}

// L3 for the index: concrete key set, offsets in blocks of `bs` keys (bs = 1: one offset per
// key, Get; bs > 1: sparse index, RangeGet), symbolic query.
func H_ix_skel() {
	keys := vIxKeys(vParam("keys"))
	bs := vParam("bs")
	n := len(keys)
	offs := make([]int64, n)
	recs := make([]string, n)
	items := make([]OffsetIndexItem, n)
	for i := range keys {
		offs[i] = int64(i/bs)*4096 - 8192
		recs[i] = string([]byte{'r', byte('0' + i%10), byte('a' + i/10%26), byte('a' + i/260)})
		items[i] = OffsetIndexItem{Key: keys[i], Offset: offs[i]}
	}
	dr := &vRecReader{keys: keys, offs: offs, recs: recs}
	si, err := NewSlimIndex(items, dr)
	vAssert(err == nil, "build-ok")
	if err != nil {
		vAssume(false)
	}
	vBuildOther(vParamDef("other", 0))
	// every indexed key returns its record
	okAll := true
	for i := range keys {
		var rec string
		var found bool
		if bs == 1 {
			rec, found = si.Get(keys[i])
		} else {
			rec, found = si.RangeGet(keys[i])
		}
		okAll = vAnd(okAll, found && rec == recs[i])
		if bs == 1 {
			// with one offset per key the range lookup is exact as well
			rec, found = si.RangeGet(keys[i])
			okAll = vAnd(okAll, found && rec == recs[i])
		}
	}
	vAssert(okAll, "C12.indexed-found")
	// an arbitrary query is found exactly when it is indexed
	q := vString("q", vParam("lq"))
	var rec string
	var found bool
	if bs == 1 {
		rec, found = si.Get(q)
	} else {
		rec, found = si.RangeGet(q)
	}
	has := false
	okRec := true
	for i := range keys {
		eq := vStrEq(keys[i], q)
		has = vOr(has, eq)
		okRec = vAnd(okRec, vImplies(eq, vAnd(found, rec == recs[i])))
	}
	vAssert(found == has, "C12.found-iff-indexed")
	vAssert(okRec, "C12.record")
	vObserve("found", found)
	vReach("end")
}

// vSweep: the first n keys (then sorted, de-duplicated) of a fixed pseudo-random list over
// a 14-letter alphabet with bytes 0x00, 0x0f, 0x10, 0x7f, 0x80, 0xf0, 0xff and 'a'..'g'.
// Key lengths 0..5, so keys are often prefixes of other keys; with growing n the shapes
// pass through 17-bit-only tries, a 257-bit root (> 10 first bytes), nested 257-bit nodes
// and short-node tables, and the bitmaps take many different alignments.
func vSweep(n int) []string {
	alpha := []byte{0x00, 0x0f, 0x10, 'a', 'b', 'c', 'd', 'e', 'f', 'g', 0x7f, 0x80, 0xf0, 0xff}
	x := uint32(12345)
	next := func() uint32 {
		x = x*1664525 + 1013904223
		return x >> 8
	}
	var ks []string
	for i := 0; i < n; i++ {
		l := int(next() % 6)
		if l > 0 && next()%3 == 0 {
			l = 1 + int(next()%2)
		}
		b := make([]byte, l)
		for j := range b {
			b[j] = alpha[next()%uint32(len(alpha))]
		}
		ks = append(ks, string(b))
	}
	return vUniqSorted(ks)
}

func vUniqSorted(ks []string) []string {
	// simple merge sort (concrete; insertion sort is too slow in the engine for hundreds of keys)
	if len(ks) > 1 {
		mid := len(ks) / 2
		a := vUniqSorted(append([]string{}, ks[:mid]...))
		b := vUniqSorted(append([]string{}, ks[mid:]...))
		ks = ks[:0]
		i, j := 0, 0
		for i < len(a) || j < len(b) {
			var nx string
			if j >= len(b) || (i < len(a) && a[i] <= b[j]) {
				nx = a[i]
				i++
			} else {
				nx = b[j]
				j++
			}
			if len(ks) == 0 || ks[len(ks)-1] != nx {
				ks = append(ks, nx)
			}
		}
	}
	return ks
}

// vBuildOther builds (and drops) a second, unrelated index: nothing a later build does may
// disturb an index that is still alive (shared scratch memory, pools, caches).
func vBuildOther(kind int) {
	if kind == 0 {
		return
	}
	var keys []string
	switch kind {
	case 1:
		keys = []string{"pa", "pbc", "pbd", "q"}
	case 2:
		keys = []string{"\x00\x10", "\x00\x11\x7f", "\x00\x11\x80"}
	default:
		keys = vSweep(40)
	}
	items := make([]OffsetIndexItem, len(keys))
	offs := make([]int64, len(keys))
	recs := make([]string, len(keys))
	for i := range keys {
		offs[i] = int64(i) * 7
		recs[i] = "o"
		items[i] = OffsetIndexItem{Key: keys[i], Offset: offs[i]}
	}
	_, err := NewSlimIndex(items, &vRecReader{keys: keys, offs: offs, recs: recs})
	vAssert(err == nil, "build-ok")
}

type vRecReader struct {
	keys []string
	offs []int64
	recs []string
}

// Read scans the block starting at offset and returns the record whose key equals key
// (a data reader that verifies the record key, as the package documentation requires).
func (r *vRecReader) Read(offset int64, key string) (string, bool) {
	for i := range r.keys {
		if r.offs[i] == offset && vStrEq(r.keys[i], key) {
			return r.recs[i], true
		}
	}
	return "", false
}

func vLens(code, n, L int) []int {
	ls := make([]int, n)
	for i := 0; i < n; i++ {
		ls[i] = code % (L + 1)
		code /= (L + 1)
	}
	return ls
}

func H_ix_exact() {
	n := vParam("n")
	lens := vLens(vParam("lens"), n, vParam("L"))
	mode := vParam("mode") // 0: one offset per key (Get); 1: block offsets (RangeGet)
	keys := make([]string, n)
	for i := range keys {
		keys[i] = vString("k", lens[i])
	}
	for i := 0; i+1 < n; i++ {
		vAssume(vStrLt(keys[i], keys[i+1]))
	}
	offs := make([]int64, n)
	recs := make([]string, n)
	items := make([]OffsetIndexItem, n)
	for i := range offs {
		offs[i] = vI64("off")
		if i > 0 {
			if mode == 0 {
				vAssume(offs[i-1] < offs[i])
			} else {
				vAssume(offs[i-1] <= offs[i]) // equal neighbours share a block
			}
		}
		recs[i] = string([]byte{'r', byte('0' + i)})
		items[i] = OffsetIndexItem{Key: keys[i], Offset: offs[i]}
	}
	dr := &vRecReader{keys: keys, offs: offs, recs: recs}
	si, err := NewSlimIndex(items, dr)
	vAssert(err == nil, "build-ok")
	if err != nil {
		vAssume(false)
	}
	vBuildOther(vParamDef("other", 0))
	q := vString("q", vParam("lq"))
	var rec string
	var found bool
	if mode == 0 {
		rec, found = si.Get(q)
	} else {
		rec, found = si.RangeGet(q)
	}
	has := false
	okRec := true
	for i := range keys {
		eq := vStrEq(keys[i], q)
		has = vOr(has, eq)
		okRec = vAnd(okRec, vImplies(eq, vAnd(found, rec == recs[i])))
	}
	vAssert(found == has, "C12.found-iff-indexed")
	vAssert(okRec, "C12.record")
	vObserve("found", found)
	vReach("end")
}
