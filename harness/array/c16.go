//go:build verif
// +build verif

package array

import (
	"encoding/binary"

	proto "github.com/golang/protobuf/proto"
	"github.com/openacid/slim/encode"
)

// C16 — compacted arrays behave as a sparse map and survive serialization.

func init() {
	vRegister("arr_map", H_arr_map)
	vRegister("arr_invalid", H_arr_invalid)
}

var vWordSet = []int32{0, 1, 2, 3, 100, 16383}

// vIndexes: n indexes 64*w + s with the word taken from vWordSet by the digits of
// `code` (base len(vWordSet)) and the bit position s symbolic in 0..63.
func vIndexes(n, code int, ascending bool) []int32 {
	idx := make([]int32, n)
	for i := range idx {
		w := vWordSet[code%len(vWordSet)]
		code /= len(vWordSet)
		s := int32(vByte("bit"))
		vAssume(s < 64)
		idx[i] = w*64 + s
	}
	if ascending {
		for i := 0; i+1 < n; i++ {
			vAssume(idx[i] < idx[i+1])
		}
	}
	return idx
}

// vBEPre: some other code in the process builds big-endian encoders for the element types
// (parameter bepre=1), after the arrays were built and before NewEmpty is asked for a decoder.
func vBEPre() {
	if vParamDef("bepre", 0) == 1 {
		encode.NewTypeEncoderEndian(uint16(0), binary.BigEndian)
		encode.NewTypeEncoderEndian(uint32(0), binary.BigEndian)
		encode.NewTypeEncoderEndian(vLevel(0), binary.BigEndian)
		encode.NewTypeEncoderEndian(vPadElt{}, binary.BigEndian)
	}
}

func H_arr_map() {
	typ := vParam("type")
	n := vParam("n")
	idx := vIndexes(n, vParam("words"), true)
	pw := vWordSet[vParam("pw")]
	pb := int32(vByte("pbit"))
	vAssume(pb < 64)
	probe := pw*64 + pb
	loaded := vParam("loaded")
	// span of the bitmap: probes must stay inside it
	if n == 0 {
		vAssume(false)
	}
	vAssume(probe>>6 <= idx[n-1]>>6)
	// oracle: position of probe in idx
	has := false
	for i := 0; i < n; i++ {
		has = vOr(has, idx[i] == probe)
	}
	switch typ {
	case 0:
		elts := make([]uint16, n)
		for i := range elts {
			elts[i] = vU16("e")
		}
		a, err := NewU16(idx, elts)
		vAssert(err == nil && a != nil, "C16.build-ok")
		if err != nil {
			vAssume(false)
		}
		if loaded == 1 {
			bs, e1 := proto.Marshal(a)
			a2 := &U16{}
			e2 := proto.Unmarshal(bs, a2)
			vAssert(e1 == nil && e2 == nil, "C16.roundtrip-ok")
			a = a2
		}
		v, ok := a.Get(probe)
		vAssert(ok == has, "C16.typed.found")
		good := true
		for i := 0; i < n; i++ {
			good = vAnd(good, vImplies(idx[i] == probe, vAnd(ok, v == elts[i])))
		}
		vAssert(good, "C16.typed.value")
		vAssert(vOr(ok, v == 0), "C16.typed.zero")
		bs, bok := a.GetBytes(probe, 2)
		vAssert(bok == ok, "C16.raw.found")
		if bok && ok {
			vAssert(len(bs) == 2 && uint16(bs[0])|uint16(bs[1])<<8 == v, "C16.raw.value")
		}
	case 1:
		elts := make([]uint32, n)
		for i := range elts {
			elts[i] = vU32("e")
		}
		a, err := NewU32(idx, elts)
		vAssert(err == nil && a != nil, "C16.build-ok")
		if err != nil {
			vAssume(false)
		}
		if loaded == 1 {
			bs, e1 := proto.Marshal(a)
			// load into the generic array type
			g := &Array{}
			e2 := proto.Unmarshal(bs, g)
			vAssert(e1 == nil && e2 == nil, "C16.roundtrip-ok")
			gb, gok := g.GetBytes(probe, 4)
			vAssert(gok == has, "C16.generic.raw.found")
			if gok {
				gv := uint32(gb[0]) | uint32(gb[1])<<8 | uint32(gb[2])<<16 | uint32(gb[3])<<24
				good := true
				for i := 0; i < n; i++ {
					good = vAnd(good, vImplies(idx[i] == probe, gv == elts[i]))
				}
				vAssert(good, "C16.generic.raw.value")
			}
			// ... and into a generic array made by NewEmpty for the element type: decoded elements
			vBEPre()
			g2, e4 := NewEmpty(uint32(0))
			vAssert(e4 == nil && g2 != nil, "C16.newempty-ok")
			if e4 == nil {
				e5 := proto.Unmarshal(bs, g2)
				vAssert(e5 == nil, "C16.roundtrip-ok")
				x, xok := g2.Get(probe)
				vAssert(xok == has, "C16.generic.found")
				if xok {
					xv, isU32 := x.(uint32)
					vAssert(isU32, "C16.generic.type")
					good := true
					for i := 0; i < n; i++ {
						good = vAnd(good, vImplies(idx[i] == probe, xv == elts[i]))
					}
					vAssert(good, "C16.generic.value")
				}
			}
			a2 := &U32{}
			e3 := proto.Unmarshal(bs, a2)
			vAssert(e3 == nil, "C16.roundtrip-ok")
			a = a2
		}
		v, ok := a.Get(probe)
		vAssert(ok == has, "C16.typed.found")
		good := true
		for i := 0; i < n; i++ {
			good = vAnd(good, vImplies(idx[i] == probe, vAnd(ok, v == elts[i])))
		}
		vAssert(good, "C16.typed.value")
		vAssert(vOr(ok, v == 0), "C16.typed.zero")
	case 2:
		elts := make([]uint64, n)
		for i := range elts {
			elts[i] = vU64("e")
		}
		a, err := NewU64(idx, elts)
		vAssert(err == nil && a != nil, "C16.build-ok")
		if err != nil {
			vAssume(false)
		}
		v, ok := a.Get(probe)
		vAssert(ok == has, "C16.typed.found")
		good := true
		for i := 0; i < n; i++ {
			good = vAnd(good, vImplies(idx[i] == probe, vAnd(ok, v == elts[i])))
		}
		vAssert(good, "C16.typed.value")
		vAssert(vOr(ok, v == 0), "C16.typed.zero")
	case 3:
		elts := make([]int16, n)
		for i := range elts {
			elts[i] = vI16("e")
		}
		a, err := NewI16(idx, elts)
		vAssert(err == nil && a != nil, "C16.build-ok")
		if err != nil {
			vAssume(false)
		}
		v, ok := a.Get(probe)
		vAssert(ok == has, "C16.typed.found")
		good := true
		for i := 0; i < n; i++ {
			good = vAnd(good, vImplies(idx[i] == probe, vAnd(ok, v == elts[i])))
		}
		vAssert(good, "C16.typed.value")
		vAssert(vOr(ok, v == 0), "C16.typed.zero")
	case 4:
		elts := make([]int32, n)
		for i := range elts {
			elts[i] = vI32("e")
		}
		a, err := NewI32(idx, elts)
		vAssert(err == nil && a != nil, "C16.build-ok")
		if err != nil {
			vAssume(false)
		}
		v, ok := a.Get(probe)
		vAssert(ok == has, "C16.typed.found")
		good := true
		for i := 0; i < n; i++ {
			good = vAnd(good, vImplies(idx[i] == probe, vAnd(ok, v == elts[i])))
		}
		vAssert(good, "C16.typed.value")
		vAssert(vOr(ok, v == 0), "C16.typed.zero")
		// generic accessor over the same data (decoding through TypeEncoder: binary model)
		g, gerr := New(idx, elts)
		vAssert(gerr == nil, "C16.build-ok")
		if gerr == nil {
			gv, gok := g.Get(probe)
			vAssert(gok == ok, "C16.generic.found")
			if gok && ok {
				vAssert(gv.(int32) == v, "C16.generic.value")
			} else {
				vAssert(gv == nil, "C16.generic.nil")
			}
		}
	case 5:
		elts := make([]int64, n)
		for i := range elts {
			elts[i] = vI64("e")
		}
		a, err := NewI64(idx, elts)
		vAssert(err == nil && a != nil, "C16.build-ok")
		if err != nil {
			vAssume(false)
		}
		v, ok := a.Get(probe)
		vAssert(ok == has, "C16.typed.found")
		good := true
		for i := 0; i < n; i++ {
			good = vAnd(good, vImplies(idx[i] == probe, vAnd(ok, v == elts[i])))
		}
		vAssert(good, "C16.typed.value")
		vAssert(vOr(ok, v == 0), "C16.typed.zero")
	case 6:
		// struct elements whose Go layout has padding (8 bytes in memory, 6 encoded)
		elts := make([]vPadElt, n)
		for i := range elts {
			elts[i] = vPadElt{A: vI32("ea"), B: vU16("eb")}
		}
		g, gerr := New(idx, elts)
		vAssert(gerr == nil && g != nil, "C16.build-ok")
		if gerr != nil {
			vAssume(false)
		}
		if loaded == 1 {
			bs, e1 := proto.Marshal(g)
			vBEPre()
			g2, e0 := NewEmpty(vPadElt{})
			vAssert(e0 == nil && g2 != nil, "C16.newempty-ok")
			if e0 != nil {
				vAssume(false)
			}
			e2 := proto.Unmarshal(bs, g2)
			vAssert(e1 == nil && e2 == nil, "C16.roundtrip-ok")
			g = g2
		}
		gv, gok := g.Get(probe)
		vAssert(gok == has, "C16.generic.found")
		if gok {
			e := gv.(vPadElt)
			good := true
			for i := 0; i < n; i++ {
				good = vAnd(good, vImplies(idx[i] == probe, vAnd(e.A == elts[i].A, e.B == elts[i].B)))
			}
			vAssert(good, "C16.generic.value")
		} else {
			vAssert(gv == nil, "C16.generic.nil")
		}
		rb, rok := g.GetBytes(probe, 6)
		vAssert(rok == has, "C16.raw.found")
		if rok && gok {
			e := gv.(vPadElt)
			vAssert(len(rb) == 6 && int32(uint32(rb[0])|uint32(rb[1])<<8|uint32(rb[2])<<16|uint32(rb[3])<<24) == e.A && uint16(rb[4])|uint16(rb[5])<<8 == e.B, "C16.raw.value")
		}
	case 7:
		// elements of an application-defined (named) integer type through the generic array
		elts := make([]vLevel, n)
		for i := range elts {
			elts[i] = vLevel(vU16("e"))
		}
		g, gerr := New(idx, elts)
		vAssert(gerr == nil && g != nil, "C16.build-ok")
		if gerr != nil {
			vAssume(false)
		}
		if loaded == 1 {
			bs, e1 := proto.Marshal(g)
			vBEPre()
			g2, e0 := NewEmpty(vLevel(0))
			vAssert(e0 == nil && g2 != nil, "C16.newempty-ok")
			if e0 != nil {
				vAssume(false)
			}
			e2 := proto.Unmarshal(bs, g2)
			vAssert(e1 == nil && e2 == nil, "C16.roundtrip-ok")
			g = g2
		}
		gv, gok := g.Get(probe)
		vAssert(gok == has, "C16.generic.found")
		if gok {
			e, isLevel := gv.(vLevel)
			vAssert(isLevel, "C16.generic.type")
			good := true
			for i := 0; i < n; i++ {
				good = vAnd(good, vImplies(idx[i] == probe, e == elts[i]))
			}
			vAssert(good, "C16.generic.value")
		} else {
			vAssert(gv == nil, "C16.generic.nil")
		}
		rb, rok := g.GetBytes(probe, 2)
		vAssert(rok == has, "C16.raw.found")
		if rok && gok {
			e, _ := gv.(vLevel)
			vAssert(len(rb) == 2 && vLevel(uint16(rb[0])|uint16(rb[1])<<8) == e, "C16.raw.value")
		}
	}
	vObserve("has", has)
	vReach("end")
}

type vLevel uint16

type vPadElt struct {
	A int32
	B uint16
}

// invalid input: non-ascending indexes / mismatched lengths are rejected and build nothing.
func H_arr_invalid() {
	n := vParam("n")
	delta := vParam("delta") // len(elts) - len(indexes)
	idx := vIndexes(n, vParam("words"), false)
	notAsc := false
	for i := 0; i+1 < n; i++ {
		notAsc = vOr(notAsc, idx[i] >= idx[i+1])
	}
	m := n + delta
	if m < 0 {
		vAssume(false)
	}
	elts := make([]uint32, m)
	for i := range elts {
		elts[i] = vU32("e")
	}
	a, err := NewU32(idx, elts)
	if delta != 0 {
		vAssert(err == ErrIndexLen, "C16.index-len")
		vAssert(a == nil, "C16.nothing-built")
	} else {
		vAssert((err != nil) == notAsc, "C16.not-ascending-iff")
		if err != nil {
			vAssert(err == ErrIndexNotAscending, "C16.not-ascending")
			vAssert(a == nil, "C16.nothing-built")
		} else {
			vAssert(a != nil && int(a.Cnt) == n, "C16.built")
		}
	}
	// Base.InitIndex on its own leaves nothing built either
	b := &Base{}
	e2 := b.InitIndex(idx)
	vAssert((e2 != nil) == notAsc, "C16.initindex.iff")
	if e2 != nil {
		vAssert(e2 == ErrIndexNotAscending && b.Cnt == 0 && len(b.Bitmaps) == 0 && len(b.Offsets) == 0, "C16.initindex.nothing-built")
	}
	// Init on a receiver the caller keeps: a rejected call leaves it empty
	u := &U32{}
	e3 := u.Init(idx, elts)
	vAssert((e3 != nil) == (err != nil), "C16.init.same-verdict")
	if e3 != nil {
		vAssert(u.Cnt == 0 && len(u.Bitmaps) == 0 && len(u.Offsets) == 0 && len(u.Elts) == 0, "C16.init.nothing-built")
	}
	g := &Array{}
	e4 := g.Init(idx, elts)
	vAssert((e4 != nil) == (err != nil), "C16.init.same-verdict")
	if e4 != nil {
		vAssert(g.Cnt == 0 && len(g.Bitmaps) == 0 && len(g.Offsets) == 0 && len(g.Elts) == 0 && g.EltEncoder == nil, "C16.init.nothing-built")
	}
	vObserve("rejected", err != nil)
	vReach("end")
}
