//go:build verif
// +build verif

package encode

import "encoding/binary"

func vBigEndian() binary.ByteOrder { return binary.BigEndian }

// C15 — value encoders round-trip every value with consistent sizes and LE layout.
// L1 lemmas: every argument symbolic over its full machine range.

func init() {
	vRegister("k_enc_int", H_k_enc_int)
	vRegister("k_enc_str", H_k_enc_str)
	vRegister("k_enc_bytes", H_k_enc_bytes)
	vRegister("k_enc_type", H_k_enc_type)
}

type vPad struct {
	A uint8
	B uint32
}

// vID, vDelta: application-defined (named) integer types; a TypeEncoder built for one must
// hand back values of that type, not of the underlying predeclared type.
type vID uint32
type vDelta int16

type vNest struct {
	X [3]uint16
	P vPad
	Y int64
	Z uint8
}

// TypeEncoder wrapper logic (the byte layout itself is encoding/binary's: modelled, see
// DESIGN §7 C15): the four sizes agree with len(Encode(v)), the round trip returns v also
// with trailing bytes, for scalars, arrays and structs with alignment padding, both byte orders.
func H_k_enc_type() {
	typ := vParam("type")
	big := vParam("big") == 1
	njunk := vParam("junk")
	var zero, v interface{}
	packed := 0
	switch typ {
	case 0:
		x := vI32("v")
		zero, v, packed = int32(0), x, 4
	case 1:
		x := vU64("v")
		zero, v, packed = uint64(0), x, 8
	case 2:
		x := [3]uint16{vU16("v"), vU16("v"), vU16("v")}
		zero, v, packed = [3]uint16{}, x, 6
	case 3:
		x := vPad{A: vU8("v"), B: vU32("v")}
		zero, v, packed = vPad{}, x, 5
	case 5:
		x := vID(vU32("v"))
		zero, v, packed = vID(0), x, 4
	case 6:
		x := vDelta(vI16("v"))
		zero, v, packed = vDelta(0), x, 2
	default:
		x := vNest{X: [3]uint16{vU16("v"), vU16("v"), vU16("v")}, P: vPad{A: vU8("v"), B: vU32("v")}, Y: vI64("v"), Z: vU8("v")}
		zero, v, packed = vNest{}, x, 6+5+8+1
	}
	var e *TypeEncoder
	var err error
	if vParamDef("both", 0) == 1 {
		// the other byte order was requested first for the same type (encoders must not be confused)
		if big {
			NewTypeEncoder(zero)
		} else {
			NewTypeEncoderEndian(zero, vBigEndian())
		}
	}
	if big {
		e, err = NewTypeEncoderEndian(zero, vBigEndian())
	} else {
		e, err = NewTypeEncoder(zero)
	}
	vAssert(err == nil && e != nil, "type.new")
	if err != nil {
		return
	}
	enc := e.Encode(v)
	vAssert(len(enc) == packed, "type.sizes.len")
	// a result stays what it is while the encoder is used again (batch encoding keeps results alive)
	enc0 := append([]byte{}, enc...)
	other := e.Encode(zero)
	vAssert(vBytesEq(enc, enc0), "type.encode-result-stable")
	allZero := true
	for _, b := range other {
		allZero = vAnd(allZero, b == 0)
	}
	vAssert(len(other) == packed && allZero, "type.encode-zero")
	// the configured byte order reaches encoding/binary (scalars: compare with the shifts)
	if typ <= 1 && len(enc) == packed {
		var bits uint64
		if typ == 0 {
			bits = uint64(uint32(v.(int32)))
		} else {
			bits = v.(uint64)
		}
		okL := true
		for k := 0; k < packed; k++ {
			at := k
			if big {
				at = packed - 1 - k
			}
			okL = vAnd(okL, enc[at] == byte(bits>>(8*uint(k))))
		}
		vAssert(okL, "type.layout.byteorder")
	}
	vAssert(e.GetSize(v) == len(enc), "type.sizes.getsize")
	buf := append(append([]byte{}, enc...), vBytes("junk", njunk)...)
	vAssert(e.GetEncodedSize(buf) == len(enc), "type.sizes.encodedsize")
	n, d := e.Decode(buf)
	vAssert(n == len(enc), "type.roundtrip.consumed")
	same := false
	switch typ {
	case 0:
		same = d.(int32) == v.(int32)
	case 1:
		same = d.(uint64) == v.(uint64)
	case 2:
		same = d.([3]uint16) == v.([3]uint16)
	case 3:
		same = d.(vPad) == v.(vPad)
	case 5:
		x, ok := d.(vID)
		same = ok && x == v.(vID)
	case 6:
		x, ok := d.(vDelta)
		same = ok && x == v.(vDelta)
	default:
		same = d.(vNest) == v.(vNest)
	}
	vAssert(same, "type.roundtrip.value")
	// two values packed back to back are found at offsets 0 and GetEncodedSize
	two := append(append([]byte{}, enc...), enc...)
	off := e.GetEncodedSize(two)
	vAssert(off <= len(two) && len(two)-off == len(enc), "type.second-element-offset")
	vObserve("enc", enc)
	vReach("end")
}

// vEncCase builds (encoder, value as interface, value as uint64 bit pattern, width in bytes).
func vEncCase(which int) (Encoder, interface{}, uint64, int) {
	switch which {
	case 0:
		v := vU16("v")
		return U16{}, v, uint64(v), 2
	case 1:
		v := vU32("v")
		return U32{}, v, uint64(v), 4
	case 2:
		v := vU64("v")
		return U64{}, v, v, 8
	case 3:
		v := vI8("v")
		return I8{}, v, uint64(v), 1
	case 4:
		v := vI16("v")
		return I16{}, v, uint64(v), 2
	case 5:
		v := vI32("v")
		return I32{}, v, uint64(v), 4
	case 6:
		v := vI64("v")
		return I64{}, v, uint64(v), 8
	default:
		v := vInt("v")
		return Int{}, v, uint64(v), 8
	}
}

func H_k_enc_int() {
	which := vParam("enc")
	njunk := vParam("junk")
	e, v, bits, w := vEncCase(which)
	enc := e.Encode(v)
	vAssert(len(enc) == w, "sizes.len")
	vAssert(e.GetSize(v) == w, "sizes.getsize")
	// fixed-width little-endian two's-complement layout
	ok := true
	for k := 0; k < w && k < len(enc); k++ {
		ok = vAnd(ok, enc[k] == byte(bits>>(8*uint(k))))
	}
	vAssert(ok, "layout")
	buf := append(append([]byte{}, enc...), vBytes("junk", njunk)...)
	vAssert(e.GetEncodedSize(buf) == w, "sizes.encodedsize")
	n, d := e.Decode(buf)
	vAssert(n == w, "roundtrip.consumed")
	same := false
	switch which {
	case 0:
		same = d.(uint16) == v.(uint16)
	case 1:
		same = d.(uint32) == v.(uint32)
	case 2:
		same = d.(uint64) == v.(uint64)
	case 3:
		same = d.(int8) == v.(int8)
	case 4:
		same = d.(int16) == v.(int16)
	case 5:
		same = d.(int32) == v.(int32)
	case 6:
		same = d.(int64) == v.(int64)
	default:
		same = d.(int) == v.(int)
	}
	vAssert(same, "roundtrip.value")
	vObserve("enc", enc)
	vReach("end")
}

func H_k_enc_str() {
	l := vParam("len")
	njunk := vParam("junk")
	s := vString("s", l)
	e := String16{}
	enc := e.Encode(s)
	vAssert(len(enc) == 2+l, "sizes.len")
	vAssert(e.GetSize(s) == 2+l, "sizes.getsize")
	vAssert(len(enc) >= 2 && enc[0] == byte(l>>8) && enc[1] == byte(l), "layout.header")
	vAssert(len(enc) == 2+l && vStrEq(string(enc[2:]), s), "layout.body")
	buf := append(append([]byte{}, enc...), vBytes("junk", njunk)...)
	vAssert(e.GetEncodedSize(buf) == 2+l, "sizes.encodedsize")
	n, d := e.Decode(buf)
	vAssert(n == 2+l, "roundtrip.consumed")
	vAssert(vStrEq(d.(string), s), "roundtrip.value")
	vObserve("enc", enc)
	vReach("end")
}

func H_k_enc_bytes() {
	k := vParam("size")
	njunk := vParam("junk")
	dummy := vParam("dummy")
	if dummy == 1 {
		e := Dummy{Size: k}
		enc := e.Encode(vBytes("v", k))
		vAssert(len(enc) == 0 && e.GetSize(nil) == 0, "sizes.len")
		buf := vBytes("junk", njunk)
		n, d := e.Decode(buf)
		vAssert(n == 0 && d == nil && e.GetEncodedSize(buf) == 0, "roundtrip.consumed")
		vReach("end")
		return
	}
	e := Bytes{Size: k}
	v := vBytes("v", k)
	enc := e.Encode(v)
	vAssert(len(enc) == k, "sizes.len")
	vAssert(e.GetSize(v) == k, "sizes.getsize")
	vAssert(vBytesEq(enc, v), "layout")
	buf := append(append([]byte{}, enc...), vBytes("junk", njunk)...)
	vAssert(e.GetEncodedSize(buf) == k, "sizes.encodedsize")
	n, d := e.Decode(buf)
	vAssert(n == k, "roundtrip.consumed")
	vAssert(vBytesEq(d.([]byte), v), "roundtrip.value")
	vObserve("enc", enc)
	vReach("end")
}
