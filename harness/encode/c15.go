//go:build verif
// +build verif

package encode

// C15 — value encoders round-trip every value with consistent sizes and LE layout.
// L1 lemmas: every argument symbolic over its full machine range.

func init() {
	vRegister("k_enc_int", H_k_enc_int)
	vRegister("k_enc_str", H_k_enc_str)
	vRegister("k_enc_bytes", H_k_enc_bytes)
}

// vEncCase builds (encoder, value as interface, value as uint64 bit pattern, width in bytes).
func vEncCase(which int) (Encoder, interface{}, uint64, int) {
	switch which {
	case 0:
		v := vU16("v")
		return U16{}, v, uint64(v), 2
	case 1:
		v := vU32("v")
		return U32{}, v, uint64(v), 4
	case 2:
		v := vU64("v")
		return U64{}, v, v, 8
	case 3:
		v := vI8("v")
		return I8{}, v, uint64(v), 1
	case 4:
		v := vI16("v")
		return I16{}, v, uint64(v), 2
	case 5:
		v := vI32("v")
		return I32{}, v, uint64(v), 4
	case 6:
		v := vI64("v")
		return I64{}, v, uint64(v), 8
	default:
		v := vInt("v")
		return Int{}, v, uint64(v), 8
	}
}

func H_k_enc_int() {
	which := vParam("enc")
	njunk := vParam("junk")
	e, v, bits, w := vEncCase(which)
	enc := e.Encode(v)
	vAssert(len(enc) == w, "sizes.len")
	vAssert(e.GetSize(v) == w, "sizes.getsize")
	// fixed-width little-endian two's-complement layout
	ok := true
	for k := 0; k < w && k < len(enc); k++ {
		ok = vAnd(ok, enc[k] == byte(bits>>(8*uint(k))))
	}
	vAssert(ok, "layout")
	buf := append(append([]byte{}, enc...), vBytes("junk", njunk)...)
	vAssert(e.GetEncodedSize(buf) == w, "sizes.encodedsize")
	n, d := e.Decode(buf)
	vAssert(n == w, "roundtrip.consumed")
	same := false
	switch which {
	case 0:
		same = d.(uint16) == v.(uint16)
	case 1:
		same = d.(uint32) == v.(uint32)
	case 2:
		same = d.(uint64) == v.(uint64)
	case 3:
		same = d.(int8) == v.(int8)
	case 4:
		same = d.(int16) == v.(int16)
	case 5:
		same = d.(int32) == v.(int32)
	case 6:
		same = d.(int64) == v.(int64)
	default:
		same = d.(int) == v.(int)
	}
	vAssert(same, "roundtrip.value")
	vObserve("enc", enc)
	vReach("end")
}

func H_k_enc_str() {
	l := vParam("len")
	njunk := vParam("junk")
	s := vString("s", l)
	e := String16{}
	enc := e.Encode(s)
	vAssert(len(enc) == 2+l, "sizes.len")
	vAssert(e.GetSize(s) == 2+l, "sizes.getsize")
	vAssert(len(enc) >= 2 && enc[0] == byte(l>>8) && enc[1] == byte(l), "layout.header")
	vAssert(len(enc) == 2+l && vStrEq(string(enc[2:]), s), "layout.body")
	buf := append(append([]byte{}, enc...), vBytes("junk", njunk)...)
	vAssert(e.GetEncodedSize(buf) == 2+l, "sizes.encodedsize")
	n, d := e.Decode(buf)
	vAssert(n == 2+l, "roundtrip.consumed")
	vAssert(vStrEq(d.(string), s), "roundtrip.value")
	vObserve("enc", enc)
	vReach("end")
}

func H_k_enc_bytes() {
	k := vParam("size")
	njunk := vParam("junk")
	dummy := vParam("dummy")
	if dummy == 1 {
		e := Dummy{Size: k}
		enc := e.Encode(vBytes("v", k))
		vAssert(len(enc) == 0 && e.GetSize(nil) == 0, "sizes.len")
		buf := vBytes("junk", njunk)
		n, d := e.Decode(buf)
		vAssert(n == 0 && d == nil && e.GetEncodedSize(buf) == 0, "roundtrip.consumed")
		vReach("end")
		return
	}
	e := Bytes{Size: k}
	v := vBytes("v", k)
	enc := e.Encode(v)
	vAssert(len(enc) == k, "sizes.len")
	vAssert(e.GetSize(v) == k, "sizes.getsize")
	vAssert(vBytesEq(enc, v), "layout")
	buf := append(append([]byte{}, enc...), vBytes("junk", njunk)...)
	vAssert(e.GetEncodedSize(buf) == k, "sizes.encodedsize")
	n, d := e.Decode(buf)
	vAssert(n == k, "roundtrip.consumed")
	vAssert(vBytesEq(d.([]byte), v), "roundtrip.value")
	vObserve("enc", enc)
	vReach("end")
}
