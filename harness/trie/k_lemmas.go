//go:build verif
// +build verif

package trie

// L1 kernel lemmas over single real functions of package trie.

func init() {
	vRegister("k_encstep", H_k_encstep)
}

// A1: decStep(encStep(s)) == s for every step the builder can produce
// (non-negative multiple of 4).  Expected to fail for s >= 2^18 (finding F3).
func H_k_encstep() {
	s := vI32("s")
	vAssume(s >= 0)
	vAssume(s&3 == 0)
	lim := vParam("limit") // 0: full int32 range; 1: steps that fit 16 bits of half-bytes
	if lim == 1 {
		vAssume(s < 1<<18)
	}
	bs := encStep(s)
	vAssert(len(bs) == 2, "width")
	vAssert(decStep(bs) == s, "roundtrip")
	vObserve("enc", bs)
	vReach("end")
}
