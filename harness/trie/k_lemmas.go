//go:build verif
// +build verif

package trie

// L1 kernel lemmas over single real functions of package trie.

import (
	"github.com/openacid/low/bmtree"
	"github.com/openacid/slim/encode"
)

func vU16Encoder() encode.Encoder { return encode.U16{} }

func init() {
	vRegister("k_encstep", H_k_encstep)
	vRegister("k_path_summary", H_k_path_summary)
}

// A9 (licenses the engine's summary of bmtree.PathToIndex): for bitmap sizes 17 and 257
// the real PathToIndex maps the empty path to 0 and a full-height path with bits v to 1+v.
// Run with the summary switched off, so that the real code is what is executed.
func H_k_path_summary() {
	size := int32(vParam("size"))
	h := int32(4)
	if size == 257 {
		h = 8
	}
	vAssert(bmtree.PathToIndex(size, bmtree.NewPath(0, 0, h)) == 0, "summary.empty")
	var v uint64
	if h == 4 {
		v = uint64(vByte("v") & 0xf)
	} else {
		v = uint64(vByte("v"))
	}
	p := bmtree.NewPath(v, h, h)
	vAssert(bmtree.PathLen(p) == h, "summary.len")
	vAssert(bmtree.PathToIndex(size, p) == 1+int32(v), "summary.full")
	// and PathOf produces exactly such paths for aligned positions inside a key
	k := vString("k", 2)
	if h == 4 {
		for pos := int32(0); pos < 16; pos += 4 {
			pp := bmtree.PathOf(k, pos, 4)
			nib := k[pos>>3]
			if pos&7 < 4 {
				nib >>= 4
			}
			nib &= 0xf
			vAssert(pp == bmtree.NewPath(uint64(nib), 4, 4), "summary.pathof")
		}
		vAssert(bmtree.PathOf(k, 16, 4) == bmtree.NewPath(0, 0, 4), "summary.pathof.end")
	} else {
		for pos := int32(0); pos < 16; pos += 8 {
			vAssert(bmtree.PathOf(k, pos, 8) == bmtree.NewPath(uint64(k[pos>>3]), 8, 8), "summary.pathof")
		}
		vAssert(bmtree.PathOf(k, 16, 8) == bmtree.NewPath(0, 0, 8), "summary.pathof.end")
	}
	vObserve("idx", bmtree.PathToIndex(size, p))
	vReach("end")
}

// A1: decStep(encStep(s)) == s for every step the builder can produce
// (non-negative multiple of 4, at most maxStep half-bytes).
func H_k_encstep() {
	s := vI32("s")
	vAssume(s >= 0)
	vAssume(s&3 == 0)
	// the builder refuses longer steps (maxStep, checked in newSlim): the lemma ranges over
	// every step it accepts
	vAssume(s>>2 <= maxStep)
	bs := encStep(s)
	vAssert(len(bs) == 2, "width")
	vAssert(decStep(bs) == s, "roundtrip")
	vObserve("enc", bs)
	vReach("end")
}

func init() {
	vRegister("k_shortnode", H_k_shortnode)
	vRegister("k_innerbm", H_k_innerbm)
	vRegister("k_vlen", H_k_vlen)
	vRegister("k_fixleaf", H_k_fixleaf)
}

// vBits extracts bits [from, from+n) (n <= 32) of a word slice as a number (spec, by bit loop).
func vBitsOf(words []uint64, from, n int32) uint64 {
	r := uint64(0)
	for k := int32(0); k < n; k++ {
		i := from + k
		bit := (words[i>>6] >> uint(i&63)) & 1
		r |= bit << uint(k)
	}
	return r
}

// A11: table-compressed (short) inner nodes at every alignment.  Synthetic state: all
// inner nodes short, ShortSize s, three symbolic Inners words, symbolic ShortTable;
// the k-th inner node sits at bit s*k.  getIthInner / getIthInnerFrom / getNode must
// read exactly bits [s*k, s*k+s) and translate them through the table.
func H_k_shortnode() {
	s := int32(vParam("s"))
	k := int32(vParam("k"))
	if s*k+s > 128 {
		vAssume(false)
	}
	// exactly as many words as the node needs (a node ending on a word boundary is the
	// last thing in the bitmap), or one spare word
	nw := int((s*k+s+63)>>6) + vParam("spare")
	words := make([]uint64, nw)
	for i := range words {
		words[i] = vU64("w")
	}
	tab := make([]uint32, 1<<uint(s))
	for i := range tab {
		if s <= 5 {
			tab[i] = vU32("t") & 0x1ffff
		} else {
			tab[i] = uint32(i*2654435761) & 0x1ffff
		}
	}
	nInner := k + 1
	idx := make([]int32, nInner)
	for i := range idx {
		idx[i] = int32(i)
	}
	ns := &Slim{ShortSize: s, ShortTable: tab, BigInnerCnt: 0}
	ns.ShortBM = newBM(idx, nInner, "r64")
	ns.NodeTypeBM = newBM(idx, nInner+1, "r64")
	ns.Inners = &Bitmap{Words: words}
	ns.Inners.indexit("r128")
	ns.InnerPrefixes = &VLenArray{PresenceBM: newBM(nil, nInner, "r128")}
	st := &SlimTrie{inner: ns}
	st.initVars()
	want := uint64(tab[vBitsOf(words, s*k, s)])
	qr := &querySession{}
	st.getIthInner(k, qr)
	vAssert(qr.from == s*k && qr.to == s*k+s, "A11.ithinner.range")
	vAssert(qr.bm == want, "A11.ithinner.bm")
	q2 := &querySession{}
	st.getIthInnerFrom(k, q2)
	vAssert(q2.from == s*k, "A11.ithinnerfrom")
	q3 := &querySession{}
	st.getNode(k, q3)
	vAssert(q3.isInner == 1 && q3.from == s*k && q3.to == s*k+s && q3.bm == want, "A11.getnode")
	vObserve("bm", qr.bm)
	vReach("end")
}

// A12 (first half): the bitmap of a plain 17-bit or 257-bit inner node read by getInnerBM
// at every alignment equals the bits of Inners (three/seven symbolic words).
func H_k_innerbm() {
	from := int32(vParam("from"))
	size := int32(vParam("size"))
	nw := 3
	if size == 257 {
		nw = 7
	}
	if int(from+size) > 64*nw {
		vAssume(false)
	}
	// bitmap.Slice tests the node's bits one by one (a fork per symbolic bit), so only five
	// bits are symbolic: the node's first, middle and last bit and the two bits just
	// outside it; every other bit follows a fixed irregular pattern
	words := make([]uint64, nw)
	for i := range words {
		words[i] = 0x9e3779b97f4a7c15 * uint64(i+1)
	}
	for _, p := range []int32{from - 1, from, from + size/2, from + size - 1, from + size} {
		if p < 0 || int(p) >= 64*nw {
			continue
		}
		bit := uint64(1) << uint(p&63)
		words[p>>6] = words[p>>6]&^bit | uint64(vB2I(vBool("b")))<<uint(p&63)
	}
	ns := &Slim{ShortSize: 0}
	ns.Inners = &Bitmap{Words: words}
	st := &SlimTrie{inner: ns}
	qr := &querySession{from: from, to: from + size}
	bm, sz := st.getInnerBM(qr)
	vAssert(sz == size, "A12.size")
	ok := len(bm) >= int((size+63)>>6)
	for w := int32(0); ok && w*64 < size; w++ {
		n := size - w*64
		if n > 32 {
			// compare in two halves (vBitsOf handles <= 32 bits at a time)
			lo := vBitsOf(words, from+w*64, 32)
			m := n - 32
			if m > 32 {
				m = 32
			}
			hi := vBitsOf(words, from+w*64+32, m)
			ok = vAnd(ok, bm[w] == lo|hi<<32)
		} else {
			ok = vAnd(ok, bm[w] == vBitsOf(words, from+w*64, n))
		}
	}
	vAssert(ok, "A12.bits")
	vObserve("bm0", bm[0])
	vReach("end")
}

// A16: newVLenArray / VLenArray.get with every combination of element lengths 0..2
// (enumerated) and symbolic contents: get(i) returns element i; nil iff all are empty.
func H_k_vlen() {
	n := vParam("n")
	code := vParam("lens")
	elts := make([][]byte, n)
	total := 0
	for i := range elts {
		l := code % 4
		code /= 4
		elts[i] = vBytes("e", l)
		total += l
	}
	va := newVLenArray(elts)
	vAssert((va == nil) == (total == 0), "A16.nil-iff-empty")
	if va != nil {
		ok := true
		for i := range elts {
			got := va.get(int32(i))
			ok = vAnd(ok, len(got) == len(elts[i]) && vBytesEq(got, elts[i]))
		}
		vAssert(ok, "A16.get")
		vAssert(int(va.N) == n, "A16.n")
	}
	vReach("end")
}

// the 0.5.10 leaf fix-up: bare leaf bytes of n fixed-width values become an array whose
// get(i) returns value i, for leaf counts around the 64-bit word boundaries.
func H_k_fixleaf() {
	n := vParam("n")
	bs := vBytes("leaf", 2*n)
	st := &SlimTrie{inner: &Slim{}, encoder: vU16Encoder()}
	if n > 0 {
		st.inner.Leaves = &VLenArray{Bytes: bs}
	}
	before000512FixLeafSize(st)
	if n == 0 {
		vAssert(st.inner.Leaves == nil, "fixleaf.empty")
	} else {
		lv := st.inner.Leaves
		vAssert(int(lv.N) == n && int(lv.EltCnt) == n && lv.FixedSize == 2, "fixleaf.counts")
		i := int32(vU16("i"))
		vAssume(i < int32(n))
		got := lv.get(i)
		vAssert(len(got) == 2 && got[0] == bs[2*i] && got[1] == bs[2*i+1], "fixleaf.get")
	}
	vReach("end")
}
