//go:build verif
// +build verif

package trie

import (
	"bytes"

	"github.com/golang/protobuf/proto"
	"github.com/openacid/slim/encode"
)

// ---------- option cases ----------

// vOptCase: 0..15 = bit0 DedupValue, bit1 InnerPrefix, bit2 LeafPrefix, bit3 Complete
// (all four fields set explicitly); 16 = Opt{} (all nil: documented defaults);
// 17 = only Complete=true set.
func vOptCase(i int) Opt {
	if i == 16 {
		return Opt{}
	}
	switch i {
	case 17:
		return Opt{Complete: Bool(true)}
	// partially filled option structs (the remaining fields are nil and take their defaults)
	case 18:
		return Opt{InnerPrefix: Bool(true), LeafPrefix: Bool(true)}
	case 19:
		return Opt{InnerPrefix: Bool(true)}
	case 20:
		return Opt{LeafPrefix: Bool(true)}
	case 21:
		return Opt{DedupValue: Bool(false)}
	case 22:
		return Opt{DedupValue: Bool(false), Complete: Bool(true)}
	}
	return Opt{
		DedupValue:  Bool(i&1 != 0),
		InnerPrefix: Bool(i&2 != 0),
		LeafPrefix:  Bool(i&4 != 0),
		Complete:    Bool(i&8 != 0),
	}
}

func vOptDedup(i int) bool {
	if i == 21 || i == 22 {
		return false
	}
	if i >= 16 {
		return true
	}
	return i&1 != 0
}

// vOptComplete reports whether the option case stores complete keys.
func vOptComplete(i int) bool {
	if i == 16 {
		return false
	}
	if i == 17 || i == 18 || i == 22 {
		return true
	}
	if i >= 18 {
		return false
	}
	return i&8 != 0 || (i&2 != 0 && i&4 != 0)
}

// ---------- symbolic key sets (L2) ----------

// vLens decodes a mixed-radix number into n key lengths in 0..L.
func vLens(code, n, L int) []int {
	ls := make([]int, n)
	for i := 0; i < n; i++ {
		ls[i] = code % (L + 1)
		code /= (L + 1)
	}
	return ls
}

func vPow(b, e int) int {
	r := 1
	for i := 0; i < e; i++ {
		r *= b
	}
	return r
}

// vSymKeys returns n keys with the given lengths and fully symbolic bytes,
// assumed strictly ascending (the documented precondition).
func vSymKeys(lens []int, ascending bool) []string {
	keys := make([]string, len(lens))
	for i := range lens {
		keys[i] = vString("k", lens[i])
	}
	if ascending {
		for i := 0; i+1 < len(keys); i++ {
			vAssume(vStrLt(keys[i], keys[i+1]))
		}
	}
	return keys
}

// retained[i] by the property's definition (values are uint16 here).
func vRetainedU16(vals []uint16, dedup bool) []bool {
	r := make([]bool, len(vals))
	for i := range vals {
		if i == 0 || !dedup {
			r[i] = true
		} else {
			r[i] = vals[i] != vals[i-1]
		}
	}
	return r
}

var _ = encode.U16{}

// ---------- skeleton key sets (L3) ----------

// vSkeleton returns a concrete, strictly ascending key list chosen for its shape.
func vSkeleton(id int) []string {
	if id >= 330 {
		// F one-byte leaf keys 0x01..F followed by one inner node with two leaves: the last inner
		// node has id F+1 = 63, 127, 191, 255 -- the last bit of a word of the node-type bitmap,
		// with leaves before it in the same word
		f := []int{62, 126, 190, 254}[id-330]
		var ks []string
		for b := 1; b <= f; b++ {
			ks = append(ks, string([]byte{byte(b)}))
		}
		ks = append(ks, string([]byte{byte(f + 1), 'a'}), string([]byte{byte(f + 1), 'b'}))
		return ks
	}
	if id >= 310 {
		// group families whose bitmap length / inner count / short count is a multiple of 64
		// (found by a native search): 30x{a,b} (128 bits, last node short), 56x{a,b} (64 inner
		// nodes), 64x{a,b} (64 short nodes), 30x{a,aa}, 54x{a,b,c} (256 bits), 56x{a,b,c} (64 inner)
		g := []int{30, 56, 64, 30, 54, 56}[id-310]
		suf := [][]string{{"a", "b"}, {"a", "b"}, {"a", "b"}, {"a", "aa"}, {"a", "b", "c"}, {"a", "b", "c"}}[id-310]
		var ks []string
		for i := 0; i < g; i++ {
			p := string([]byte{byte('0' + i/16), byte('a' + i%16)})
			for _, x := range suf {
				ks = append(ks, p+x)
			}
		}
		return vUniqSorted(ks)
	}
	if id >= 300 {
		// sweep sizes with 64-aligned structure: 54 (Inners = 512 bits), 242 (64 inner nodes),
		// 523 (128 inner nodes), 94 (64 leaves), 219 (128 leaves), 63 (64 nodes), 660 (128 inner, 15 big nodes)
		return vSweep([]int{54, 242, 523, 94, 219, 63, 660}[id-300])
	}
	if id >= 100 {
		return vSweep(5 + 7*(id-100))
	}
	switch id {
	case 20: // tiny concrete key sets for symbolic values (value lengths fork, keys do not)
		return []string{"a", "b", "c"}
	case 21:
		return []string{"a", "ab", "b", "c"}
	case 22:
		return []string{"", "k", "ka", "kb", "z"}
	case 12, 13: // lengths on and around 32/64/128/256 bytes (13: with diverging siblings)
		return vLenDiverse(id - 12)
	case 15, 16: // scale: 30000 (15) / 6000 (16) pseudo-random 8-byte keys over all byte values
		// (15: > 32768 nodes, ids beyond 15 and 16 bits in legacy streams; big short-node tables)
		cnt := 30000
		if id == 16 {
			cnt = 6000
		}
		x := uint64(88172645463325252)
		ks := make([]string, 0, cnt)
		for i := 0; i < cnt; i++ {
			x ^= x << 13
			x ^= x >> 7
			x ^= x << 17
			b := make([]byte, 8)
			for j := range b {
				b[j] = byte(x >> (uint(j) * 8))
			}
			// cluster the first two bytes so that deep levels exist as well
			b[0] &= 0x0f
			b[1] &= 0x3f
			ks = append(ks, string(b))
		}
		return vUniqSortedBig(ks)
	case 23, 24:
		return vPrefixLowByte(id == 24)
	case 26: // groups that share exactly L bytes and the upper nibble of the next byte (L around 64 and 128:
		// stored prefixes that end mid-byte at a power-of-two buffer size)
		base := make([]byte, 130)
		for i := range base {
			base[i] = byte('a' + (i*7+i/13)%23)
		}
		var ks []string
		for i, l := range []int{62, 63, 64, 65, 126, 127, 128, 129} {
			p := string(append([]byte{byte('A' + i)}, base[:l-1]...))
			ks = append(ks, p+"a", p+"b", p+"c")
		}
		return ks
	case 25: // like 19 with the highest byte values (labels up to 0xff in nested 257-bit nodes)
		var ks []string
		for a := 0; a < 12; a++ {
			for b := 0; b < 12; b++ {
				ks = append(ks, string([]byte{byte(0xf4 + a), byte(0xf4 + b)}))
			}
		}
		return ks
	case 19: // 12 first bytes x 12 second bytes: a 257-bit root over twelve 257-bit nodes
		var ks []string
		for a := 0; a < 12; a++ {
			for b := 0; b < 12; b++ {
				ks = append(ks, string([]byte{byte('a' + a), byte('a' + b)}))
			}
		}
		return ks
	case 17, 18: // a 257-bit root with all 256 byte branches (18: and the empty key: every label bit set)
		return vFullByteFan(id == 18)
	case 14: // a key that is also an inner node with all 16 high-nibble branches (17 labels)
		ks := []string{"k"}
		for h := 0; h < 16; h++ {
			ks = append(ks, string([]byte{'k', byte(h << 4)}), string([]byte{'k', byte(h<<4 | 0x0f), 'z'}))
		}
		return vUniqSorted(ks)
	case 0: // the README example
		return []string{"abc", "abcd", "abd", "abde", "bc", "bcd", "bcde", "cde"}
	case 1: // keys that are prefixes of other keys, the empty key, 0x00/0xff neighbours
		return []string{"", "\x00", "\x00\x00", "\x00\xff", "a", "a\x00", "ab", "ab\xff", "ab\xff\xff", "b", "\xff", "\xff\x00", "\xff\xff"}
	case 2: // 12 distinct first bytes x {a,b}: one 257-bit root, bytes >= 0x80
		var ks []string
		for i := 0; i < 12; i++ {
			p := string([]byte{byte(0x10 + i*0x14)})
			ks = append(ks, p+"a", p+"b")
		}
		return ks
	case 3: // binary caterpillar, 12 levels deep, long shared runs
		var ks []string
		p := ""
		for i := 0; i < 12; i++ {
			ks = append(ks, p+"a")
			p += "xy"
		}
		ks = append(ks, p)
		return vSorted(ks)
	case 4: // 40 groups x {a,b}: short-node table (ShortSize 2)
		var ks []string
		for i := 0; i < 40; i++ {
			p := string([]byte{byte('0' + i/16), byte('a' + i%16)})
			ks = append(ks, p+"a", p+"b")
		}
		return vSorted(ks)
	case 5: // 20 groups x {a, aa}: short-node table whose bitmaps contain the end-of-key label
		var ks []string
		for i := 0; i < 20; i++ {
			p := string([]byte{byte('0' + i/16), byte('a' + i%16)})
			ks = append(ks, p+"a", p+"aa")
		}
		return vSorted(ks)
	case 6: // 40 groups x {a,b,c}: ShortSize 3
		var ks []string
		for i := 0; i < 40; i++ {
			p := string([]byte{byte('0' + i/16), byte('a' + i%16)})
			ks = append(ks, p+"a", p+"b", p+"c")
		}
		return vSorted(ks)
	case 7: // 257-bit root over 15 plain 17-bit nodes with pairwise different label sets:
		// the Inners bitmap is exactly 257+15*17 = 512 bits and its very last bit (label 0xf
		// of the last node) is set
		var ks []string
		for i := 0; i < 15; i++ {
			b := byte(0x11 + i*0x0f)
			lo, hi := byte(i%15), byte(15)
			if i == 14 {
				lo = 13
			}
			ks = append(ks, string([]byte{b, lo << 4}), string([]byte{b, hi<<4 | byte(i)}))
		}
		return vSorted(ks)
	case 8: // 64 keys (fan-out 4 x 4 x 4): a leaf count that is a multiple of 64
		var ks []string
		for i := 0; i < 64; i++ {
			ks = append(ks, string([]byte{byte('a' + i/16), byte('k' + (i/4)%4), byte('p' + i%4)}))
		}
		return ks
	case 9: // 128 keys
		var ks []string
		for i := 0; i < 128; i++ {
			ks = append(ks, string([]byte{byte('a' + i/16), byte('k' + (i/4)%4), byte('p' + i%4)}))
		}
		return ks
	case 10: // 20 groups x {a,b} + 20 groups x {a,c}: a tie in the bitmap-frequency table
		var ks []string
		for i := 0; i < 40; i++ {
			p := string([]byte{byte('0' + i/16), byte('a' + i%16)})
			if i%2 == 0 {
				ks = append(ks, p+"a", p+"b")
			} else {
				ks = append(ks, p+"a", p+"c")
			}
		}
		return vSorted(ks)
	case 11: // a 257-bit root whose first bitmap word coincides with a frequent 17-bit bitmap:
		// first byte in {0x01, 0x02, 'A'..'L'} (14 > 10 children), then three bytes from {0x10, 0x20}
		var ks []string
		firsts := []byte{0x01, 0x02}
		for c := byte('A'); c <= 'L'; c++ {
			firsts = append(firsts, c)
		}
		for _, f := range firsts {
			for i := 0; i < 8; i++ {
				b := []byte{f, 0x10, 0x10, 0x10}
				for j := 0; j < 3; j++ {
					if i&(1<<uint(j)) != 0 {
						b[1+j] = 0x20
					}
				}
				ks = append(ks, string(b))
			}
		}
		return vUniqSorted(ks)
	}
	panic("unknown skeleton")
}

// vPrefixLowByte: under eight first bytes, a key K of 9, 10, 15, 17, 25, 33, 41 or 63 bytes that
// is a proper prefix of the key(s) after it, which continue with a byte below 0x10 (a
// separator): pairs {K, K+0x05}, or triples {K, K+"\x00email", K+"\x00name"}.
func vPrefixLowByte(triples bool) []string {
	base := make([]byte, 64)
	for i := range base {
		base[i] = byte('a' + (i*7+i/13)%23)
	}
	var ks []string
	for i, l := range []int{9, 10, 15, 17, 25, 33, 41, 63} {
		k := string(append([]byte{byte('A' + i)}, base[:l-1]...))
		if triples {
			ks = append(ks, k, k+"\x00email", k+"\x00name")
		} else {
			ks = append(ks, k, k+"\x05")
		}
	}
	return ks
}

// vFullByteFan: the 256 one-byte keys 0x00..0xff, two of them extended (so the root is not the
// only inner node), optionally with the empty key.
func vFullByteFan(withEmpty bool) []string {
	var ks []string
	if withEmpty {
		ks = append(ks, "")
	}
	for b := 0; b < 256; b++ {
		ks = append(ks, string([]byte{byte(b)}))
		if b == 0x7f || b == 0xff {
			ks = append(ks, string([]byte{byte(b), 0x00}), string([]byte{byte(b), 0xff}))
		}
	}
	return ks
}

// vLenDiverse: keys whose lengths sit on and around 32/64/128/256-byte boundaries: a chain
// of prefixes of one 300-byte pattern (lengths 0, 1, 31, 32, 33, 63, 64, 65, 127, 128, 129,
// 255, 256, 257, 300), plus for kind 1 a diverging sibling (prefix + 0xff + 40 bytes) at
// every length.  Short and very long keys live in one index.
func vLenDiverse(kind int) []string {
	base := make([]byte, 300)
	for i := range base {
		base[i] = byte('a' + (i*7+i/13)%23)
	}
	var ks []string
	for _, l := range []int{0, 1, 31, 32, 33, 63, 64, 65, 127, 128, 129, 255, 256, 257, 300} {
		ks = append(ks, string(base[:l]))
		if kind == 1 {
			sib := append(append([]byte{}, base[:l]...), 0xff)
			for j := 0; j < 40; j++ {
				sib = append(sib, byte('A'+j%5))
			}
			ks = append(ks, string(sib))
		}
	}
	return vUniqSorted(ks)
}

// vUniqSortedBig: merge sort (the insertion sort of vUniqSorted is quadratic) + de-duplication.
func vUniqSortedBig(ks []string) []string {
	if len(ks) > 1 {
		tmp := make([]string, len(ks))
		for w := 1; w < len(ks); w *= 2 {
			for lo := 0; lo < len(ks); lo += 2 * w {
				mid, hi := lo+w, lo+2*w
				if mid > len(ks) {
					mid = len(ks)
				}
				if hi > len(ks) {
					hi = len(ks)
				}
				i, j, k := lo, mid, lo
				for i < mid && j < hi {
					if ks[j] < ks[i] {
						tmp[k] = ks[j]
						j++
					} else {
						tmp[k] = ks[i]
						i++
					}
					k++
				}
				for i < mid {
					tmp[k] = ks[i]
					i++
					k++
				}
				for j < hi {
					tmp[k] = ks[j]
					j++
					k++
				}
			}
			ks, tmp = tmp, ks
		}
	}
	out := ks[:0]
	for i, k := range ks {
		if i == 0 || k != ks[i-1] {
			out = append(out, k)
		}
	}
	return out
}

func vSorted(ks []string) []string {
	// insertion sort (tiny inputs, concrete)
	for i := 1; i < len(ks); i++ {
		for j := i; j > 0 && ks[j-1] > ks[j]; j-- {
			ks[j-1], ks[j] = ks[j], ks[j-1]
		}
	}
	return ks
}

// vConcreteValues fills concrete values with run-length pattern `runs`
// (0: all distinct; k>0: runs of k equal adjacent values).
func vConcreteValues(c *vT, runs int) {
	n := c.n
	val := func(i int) int {
		if runs <= 0 {
			return i*7 + 3
		}
		if runs >= 100 {
			// the first runs-100 keys share one value, the rest are distinct
			if i < runs-100 {
				return 3
			}
			return i*7 + 3
		}
		return (i/runs)*7 + 3
	}
	switch c.enc {
	case vEncU16:
		c.u16 = make([]uint16, n)
		for i := range c.u16 {
			c.u16[i] = uint16(val(i))
		}
	case vEncOpt:
		// every third run of values is 0 (encodes to zero bytes: an absent leaf)
		c.u16 = make([]uint16, n)
		for i := range c.u16 {
			v := val(i)
			if (v/7)%3 == 1 {
				v = 0
			}
			c.u16[i] = uint16(v)
		}
	case vEncStr:
		c.str = make([]string, n)
		for i := range c.str {
			v := val(i)
			c.str[i] = string(make([]byte, v%3)) + string([]byte{byte(v)})
		}
	case vEncI64:
		c.i64 = make([]int64, n)
		for i := range c.i64 {
			c.i64[i] = int64(val(i)) - 40
		}
	case vEncI32:
		c.i32 = make([]int32, n)
		for i := range c.i32 {
			c.i32[i] = int32(val(i)) - 40
		}
	case vEncI16:
		c.i16 = make([]int16, n)
		for i := range c.i16 {
			c.i16[i] = int16(val(i)) - 40
		}
	case vEncI8:
		c.i8 = make([]int8, n)
		for i := range c.i8 {
			c.i8[i] = int8(val(i)) - 40
		}
	}
}

// vSweep: the first n keys (then sorted, de-duplicated) of a fixed pseudo-random list over
// a 14-letter alphabet with bytes 0x00, 0x0f, 0x10, 0x7f, 0x80, 0xf0, 0xff and 'a'..'g'.
// Key lengths 0..5, so keys are often prefixes of other keys; with growing n the shapes
// pass through 17-bit-only tries, a 257-bit root (> 10 first bytes), nested 257-bit nodes
// and short-node tables, and the bitmaps take many different alignments.
func vSweep(n int) []string {
	alpha := []byte{0x00, 0x0f, 0x10, 'a', 'b', 'c', 'd', 'e', 'f', 'g', 0x7f, 0x80, 0xf0, 0xff}
	x := uint32(12345)
	next := func() uint32 {
		x = x*1664525 + 1013904223
		return x >> 8
	}
	var ks []string
	for i := 0; i < n; i++ {
		l := int(next() % 6)
		if l > 0 && next()%3 == 0 {
			l = 1 + int(next()%2)
		}
		b := make([]byte, l)
		for j := range b {
			b[j] = alpha[next()%uint32(len(alpha))]
		}
		ks = append(ks, string(b))
	}
	return vUniqSorted(ks)
}

func vUniqSorted(ks []string) []string {
	// simple merge sort (concrete; insertion sort is too slow in the engine for hundreds of keys)
	if len(ks) > 1 {
		mid := len(ks) / 2
		a := vUniqSorted(append([]string{}, ks[:mid]...))
		b := vUniqSorted(append([]string{}, ks[mid:]...))
		ks = ks[:0]
		i, j := 0, 0
		for i < len(a) || j < len(b) {
			var nx string
			if j >= len(b) || (i < len(a) && a[i] <= b[j]) {
				nx = a[i]
				i++
			} else {
				nx = b[j]
				j++
			}
			if len(ks) == 0 || ks[len(ks)-1] != nx {
				ks = append(ks, nx)
			}
		}
	}
	return ks
}

// vSameWire: do two generated protobuf messages serialise to the same bytes?  (Engine: equal
// proto3 normal forms under A-PB.)
func vSameWire(a, b interface{}) bool {
	ba, e1 := proto.Marshal(a.(proto.Message))
	bb, e2 := proto.Marshal(b.(proto.Message))
	return e1 == nil && e2 == nil && bytes.Equal(ba, bb)
}
