//go:build verif
// +build verif

package trie

// L1 kernel lemma (one file per lemma: a lemma that no longer compiles against changed
// internals is dropped alone, see engine loadProgram).

func init() {
	vRegister("k_vlen", H_k_vlen)
}

// A16: newVLenArray / VLenArray.get with every combination of element lengths 0..2
// (enumerated) and symbolic contents: get(i) returns element i; nil iff all are empty.
func H_k_vlen() {
	n := vParam("n")
	code := vParam("lens")
	elts := make([][]byte, n)
	total := 0
	for i := range elts {
		l := code % 4
		code /= 4
		elts[i] = vBytes("e", l)
		total += l
	}
	va := newVLenArray(elts)
	vAssert((va == nil) == (total == 0), "A16.nil-iff-empty")
	if va != nil {
		ok := true
		for i := range elts {
			got := va.get(int32(i))
			ok = vAnd(ok, len(got) == len(elts[i]) && vBytesEq(got, elts[i]))
		}
		vAssert(ok, "A16.get")
		vAssert(int(va.N) == n, "A16.n")
	}
	vReach("end")
}
