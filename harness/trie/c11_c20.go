//go:build verif
// +build verif

package trie

import (
	"bytes"

	"github.com/openacid/slim/encode"
)

// C11 — a SlimTrie is safely shareable between concurrent readers.
// Sufficient condition decided here: no read API writes to any object that existed
// before the call and is reachable from the shared *SlimTrie (then there is no data race
// and every call is a function of immutable state).  Iterators: write sets are fresh,
// and two interleaved iterators yield what each yields alone.
//
// C20 — build and load neither modify nor alias caller-owned memory.

func init() {
	vRegister("l2_nowrite", H_l2_nowrite)
	vRegister("l3_nowrite", H_l3_nowrite)
	vRegister("l2_alias", H_l2_alias)
}

func (c *vT) collect(start string, max int) (keys []string, vals [][]byte) {
	nxt := c.st.NewIter(start, true, true)
	for i := 0; i < max; i++ {
		k, v := nxt()
		if k == nil {
			break
		}
		keys = append(keys, string(k))
		vals = append(vals, append([]byte{}, v...))
	}
	return
}

func H_l2_nowrite() {
	c := &vT{n: vParam("n"), optc: vParam("opt"), enc: vParam("enc")}
	c.keys = vSymKeys(vLens(vParam("lens"), c.n, vParam("L")), true)
	if vParamDef("alpha", 0) == 1 {
		for _, k := range c.keys {
			for i := 0; i < len(k); i++ {
				b := k[i]
				vAssume(vOr(vOr(b == 0x00, b == 0x01), vOr(vOr(b == 0x10, b == 0x7f), vOr(b == 0x80, b == 0xff))))
			}
		}
	}
	c.symValues()
	c.build()
	switch vParam("loaded") {
	case 1:
		c.st = c.reload(c.st)
	case 2: // loaded from a legacy (pre-0.5.10) stream written by the validated writer model
		if c.enc == vEncU16 {
			st, err := vLegacyLoad0509(c.keys, c.u16, 1, "0.5.9")
			vAssert(err == nil, "C06.load-ok")
			c.st = st
			c.optc = 0
		}
	case 3: // loaded from a 0.5.10 stream (writer model G.2; carries a reserved field as unknown bytes)
		st, err := vLegacyLoad0510(c, "0.5.10")
		vAssert(err == nil, "C06.load-ok")
		if err != nil {
			vAssume(false)
		}
		c.st = st
	}
	c.nowrite()
	vReach("end")
}

// L3: the same on concrete skeleton tries (short-node tables, 257-bit nodes, long keys,
// deep scan stacks), fresh or loaded, with a symbolic query.
func H_l3_nowrite() {
	c := &vT{optc: vParam("opt"), enc: vParam("enc")}
	c.keys = vSkeleton(vParam("skel"))
	c.n = len(c.keys)
	vConcreteValues(c, vParam("runs"))
	c.build()
	if vParam("loaded") == 1 {
		c.st = c.reload(c.st)
	}
	c.nowrite()
	vReach("end")
}

func (c *vT) nowrite() {
	q := c.query(vParam("lq")) // optionally an indexed key + symbolic bytes + a long concrete tail
	api := vParam("api")
	st := c.st
	vMonitor(st)
	if api != 6 {
		// natively the call runs in two goroutines at once (race detector on replay)
		vConcurrently(func() { c.readAPI(st, api, q) })
	}
	switch api {
	case 6:
		// two independent iterators, interleaved step by step
		if vOptComplete(c.optc) {
			q2 := vString("q", vParam("lq"))
			vUnmonitor(st)
			k1, v1 := c.collect(q, c.n+1)
			k2, v2 := c.collect(q2, c.n+1)
			vMonitor(st)
			a := st.NewIter(q, true, true)
			b := st.NewIter(q2, true, true)
			for i := 0; i < c.n+1; i++ {
				ka, va := a()
				kb, vb := b()
				if i < len(k1) {
					vAssert(ka != nil && vStrEq(string(ka), k1[i]) && vBytesEq(va, v1[i]), "C11.iter.same-as-solo")
				} else {
					vAssert(ka == nil, "C11.iter.same-as-solo")
				}
				if i < len(k2) {
					vAssert(kb != nil && vStrEq(string(kb), k2[i]) && vBytesEq(vb, v2[i]), "C11.iter.same-as-solo")
				} else {
					vAssert(kb == nil, "C11.iter.same-as-solo")
				}
			}
			// both iterators are exhausted (and were polled again after exhaustion); iterators
			// created now must not be affected by them or by each other: a key handed out by
			// one stays intact while the other advances
			a()
			a() // an exhausted iterator may be polled any number of times
			a2 := st.NewIter(q, true, true)
			b2 := st.NewIter(q2, true, true)
			for i := 0; i < c.n+1; i++ {
				ka, _ := a2()
				var kaCopy string
				if ka != nil {
					kaCopy = string(ka)
				}
				kb, _ := b2()
				if i < len(k1) {
					vAssert(ka != nil && vStrEq(kaCopy, k1[i]) && vStrEq(string(ka), k1[i]), "C11.iter.second-round")
				} else {
					vAssert(ka == nil, "C11.iter.second-round")
				}
				if i < len(k2) {
					vAssert(kb != nil && vStrEq(string(kb), k2[i]), "C11.iter.second-round")
				} else {
					vAssert(kb == nil, "C11.iter.second-round")
				}
			}
		}
	}
	vAssert(vWrites() == 0, "C11.no-shared-write")
}

// part 4 of l2_alias: values shorter than the encoder's nominal size, carved out of one
// caller-owned buffer (so each has spare capacity behind it): the build must not write there.
func (c *vT) aliasShortValues() {
	shared := vBytes("sh", 4*c.n+4)
	before := append([]byte{}, shared...)
	vals := make([][]byte, c.n)
	for i := range vals {
		vals[i] = shared[4*i : 4*i+1+i%2] // lengths 1, 2, 1, ... ; capacity reaches to the end of the buffer
	}
	vMonitor(shared)
	_, err := NewSlimTrie(encode.Bytes{Size: 2}, c.keys, vals, vOptCase(c.optc))
	wr := vWrites()
	vUnmonitor(shared)
	_ = err // out-of-domain values may be refused; whatever the outcome, the caller's memory is untouched
	vAssert(vBytesEq(shared, before), "C20.value-memory-unchanged")
	vAssert(wr == 0, "C20.value-memory-not-written")
	for i := range vals {
		vAssert(len(vals[i]) == 1+i%2, "C20.values-unchanged")
	}
}

func (c *vT) readAPI(st *SlimTrie, api int, q string) {
	switch api {
	case 0:
		st.Get(q)
		st.GetID(q)
	case 1:
		st.RangeGet(q)
		st.Search(q)
	case 2:
		if c.enc == vEncI32 {
			st.GetI32(q)
		}
		s1 := st.Stat()
		// what a reader does with its own result is its own business: a caller that rewrites the
		// report it was handed must not reach state shared with other readers
		if s1 != nil {
			for i := range s1.Levels {
				s1.Levels[i].Total += 7
			}
			s1.KeyCnt++
		}
	case 3:
		if vOptComplete(c.optc) {
			st.ScanFrom(q, true, true, func(k, v []byte) bool { return true })
		}
	case 4:
		st.Marshal()
	case 5:
		_ = st.String()
	}
}

func H_l2_alias() {
	c := &vT{n: vParam("n"), optc: vParam("opt"), enc: vEncU16}
	c.keys = vSymKeys(vLens(vParam("lens"), c.n, vParam("L")), true)
	c.symValues()
	part := vParam("part")
	q := vString("q", vParam("lq"))
	switch part {
	case 0: // NewSlimTrie leaves keys, values and the option struct untouched
		keys0 := append([]string{}, c.keys...)
		vals0 := append([]uint16{}, c.u16...)
		optc := c.optc
		var opt Opt
		var pd, pi, pl, pc *bool
		if optc < 16 {
			pd, pi, pl, pc = Bool(optc&1 != 0), Bool(optc&2 != 0), Bool(optc&4 != 0), Bool(optc&8 != 0)
			opt = Opt{DedupValue: pd, InnerPrefix: pi, LeafPrefix: pl, Complete: pc}
		} else if optc == 17 {
			pc = Bool(true)
			opt = Opt{Complete: pc}
		}
		opts := []Opt{opt}
		vMonitor(c.keys)
		vMonitor(c.u16)
		vMonitor(opts)
		_, err := NewSlimTrie(encode.U16{}, c.keys, c.u16, opts...)
		vAssert(err == nil, "build-ok")
		writes := vWrites()
		ok := len(c.keys) == len(keys0) && len(c.u16) == len(vals0)
		for i := range keys0 {
			ok = vAnd(ok, vAnd(vStrEq(c.keys[i], keys0[i]), c.u16[i] == vals0[i]))
		}
		vAssert(ok, "C20.inputs-unchanged")
		o := opts[0]
		vAssert(o.DedupValue == pd && o.InnerPrefix == pi && o.LeafPrefix == pl && o.Complete == pc, "C20.opt-unchanged")
		if optc < 16 {
			vAssert(*pd == (optc&1 != 0) && *pi == (optc&2 != 0) && *pl == (optc&4 != 0) && *pc == (optc&8 != 0), "C20.opt-pointees-unchanged")
		}
		vAssert(writes == 0, "C20.inputs-not-written")
	case 1: // Unmarshal neither modifies nor retains the input buffer
		c.build()
		buf, _ := c.st.Marshal()
		buf0 := append([]byte{}, buf...)
		st, _ := NewSlimTrie(c.encoder(), nil, nil)
		vMonitor(buf)
		err := st.Unmarshal(buf)
		vAssert(err == nil, "unmarshal-ok")
		writes := vWrites()
		vAssert(vBytesEq(buf, buf0), "C20.buf-unchanged")
		vAssert(writes == 0, "C20.buf-not-written")
		vUnmonitor(buf)
		vAssert(!vReachable(st, buf), "C20.buf-not-retained")
		v0, f0 := st.Get(q)
		r0, g0 := st.RangeGet(q)
		vHavocBytes(buf, "junk")
		v1, f1 := st.Get(q)
		r1, g1 := st.RangeGet(q)
		vAssert(f0 == f1 && c.sameIface(v0, v1) && g0 == g1 && c.sameIface(r0, r1), "C20.buf-overwrite-harmless")
	case 4:
		c.aliasShortValues()
	case 3: // caller-owned value memory ([]byte values through encode.Bytes) is not retained
		vals := make([][]byte, c.n)
		for i := range vals {
			vals[i] = vBytes("bv", 2)
		}
		copies := make([][]byte, c.n)
		for i := range vals {
			copies[i] = append([]byte{}, vals[i]...)
		}
		vMonitor(vals)
		st, err := NewSlimTrie(encode.Bytes{Size: 2}, c.keys, vals, vOptCase(c.optc))
		vAssert(err == nil, "build-ok")
		if err != nil {
			vAssume(false)
		}
		// the caller's value slice (the slice of slices and every element) is as it was
		wr := vWrites()
		vUnmonitor(vals)
		same := len(vals) == len(copies)
		for i := range copies {
			same = same && vals[i] != nil && len(vals[i]) == len(copies[i])
			if same {
				same = vAnd(same, vBytesEq(vals[i], copies[i]))
			}
		}
		vAssert(same, "C20.values-unchanged")
		vAssert(wr == 0, "C20.values-not-written")
		for i := range vals {
			vAssert(!vReachable(st, vals[i]), "C20.values-not-retained")
		}
		g0, f0 := st.RangeGet(q)
		var g0c []byte
		if g0 != nil {
			g0c = append([]byte{}, g0.([]byte)...)
		}
		for i := range vals {
			vHavocBytes(vals[i], "junk")
		}
		g1, f1 := st.RangeGet(q)
		vAssert(f0 == f1 && (g0 == nil) == (g1 == nil), "C20.values-overwrite-harmless")
		if g0 != nil && g1 != nil {
			vAssert(vBytesEq(g1.([]byte), g0c), "C20.values-overwrite-harmless")
		}
		// every key still maps to the value supplied for it
		ok := true
		for i := range c.keys {
			v, f := st.RangeGet(c.keys[i])
			ok = vAnd(ok, vAnd(f, v != nil && vBytesEq(v.([]byte), copies[i])))
		}
		vAssert(ok, "C20.values-overwrite-harmless")
	case 2: // bytes returned by Marshal are independent of the trie
		c.build()
		out, _ := c.st.Marshal()
		out0 := append([]byte{}, out...)
		vAssert(!vReachable(c.st, out), "C20.out-independent")
		v0, f0 := c.st.Get(q)
		vHavocBytes(out, "junk")
		v1, f1 := c.st.Get(q)
		vAssert(f0 == f1 && c.sameIface(v0, v1), "C20.out-overwrite-harmless")
		out2, _ := c.st.Marshal()
		vAssert(vNativeTrue(bytes.Equal(out2, out0)), "C20.marshal-again-same-bytes(native)")
		// two results alive at once: a later Marshal (of this or another, larger trie) leaves
		// earlier output intact; the larger trie is marshalled once before, so that any
		// recycled buffer already has room for everything that follows
		other, _ := NewSlimTrie(c.encoder(), vSkeleton(0), nil, Opt{Complete: Bool(true)})
		other.Marshal()
		outA, _ := c.st.Marshal()
		outAcopy := append([]byte{}, outA...)
		outB, _ := other.Marshal()
		outBcopy := append([]byte{}, outB...)
		vAssert(vBytesEq(outA, outAcopy), "C20.earlier-output-intact")
		outC, _ := c.st.Marshal()
		vAssert(vBytesEq(outB, outBcopy) && vBytesEq(outA, outAcopy), "C20.earlier-output-intact")
		vAssert(len(outC) == len(outA), "C20.marshal-lengths")
		vAssert(!vReachable(outA, outB) && !vReachable(outB, outC) && !vReachable(outA, outC), "C20.outputs-disjoint")
		st2 := c.reload(c.st)
		v2, f2 := st2.Get(q)
		vAssert(f0 == f2 && c.sameIface(v0, v2), "C20.marshal-again-same-answers")
	}
	vReach("end")
}
