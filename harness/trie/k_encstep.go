//go:build verif
// +build verif

package trie

// L1 kernel lemma (one file per lemma: a lemma that no longer compiles against changed
// internals is dropped alone, see engine loadProgram).

func init() {
	vRegister("k_encstep", H_k_encstep)
}

// A1: decStep(encStep(s)) == s for every step the builder can produce
// (non-negative multiple of 4, at most maxStep half-bytes).
func H_k_encstep() {
	s := vI32("s")
	vAssume(s >= 0)
	vAssume(s&3 == 0)
	// the builder refuses longer steps (maxStep, checked in newSlim): the lemma ranges over
	// every step it accepts
	vAssume(s>>2 <= maxStep)
	bs := encStep(s)
	vAssert(len(bs) == 2, "width")
	vAssert(decStep(bs) == s, "roundtrip")
	vObserve("enc", bs)
	vReach("end")
}
