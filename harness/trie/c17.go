//go:build verif
// +build verif

package trie

import (
	"github.com/openacid/slim/encode"
)

// C17 — filter-mode index size is linear in key count and independent of key length.
// Reachable part (see DESIGN §7 C17): a structural size measure of the message that
// bounds the proto3 size from above, compared between K and P+K (relational clause),
// and bounded by 8n+256 on adversarial concrete families.

func init() {
	vRegister("l2_size_rel", H_l2_size_rel)
	vRegister("l3_size_abs", H_l3_size_abs)
	vRegister("l3_size_rel", H_l3_size_rel)
}

// relational clause at scale: a concrete family K (many inner nodes with steps) versus P+K.
func H_l3_size_rel() {
	keys := vFamily(vParam("family"), vParam("n"))
	n := len(keys)
	plen := vParam("plen")
	p := make([]byte, plen)
	for i := range p {
		p[i] = byte('a' + i%7)
	}
	P := string(p)
	tail := vString("tail", 1) // content of a leaf tail must not matter
	pkeys := make([]string, n)
	k2 := make([]string, n)
	for i := range keys {
		k2[i] = keys[i]
		if i == n-1 {
			k2[i] += tail
		}
		pkeys[i] = P + k2[i]
	}
	a, err1 := NewSlimTrie(encode.Dummy{}, k2, nil)
	b, err2 := NewSlimTrie(encode.Dummy{}, pkeys, nil)
	vAssert(err1 == nil && err2 == nil, "build-ok")
	if err1 != nil || err2 != nil {
		vAssume(false)
	}
	ma, mb := vMeasure(a.inner), vMeasure(b.inner)
	vAssert(vAbsDiff(ma, mb) <= 24, "C17.length-independent.measure")
	ba, _ := a.Marshal()
	bb, _ := b.Marshal()
	vAssert(vNativeTrue(vAbsDiff(len(ba), len(bb)) <= 16), "C17.length-independent.bytes(native)")
	if vParamDef("pre", 0) > 0 {
		// the size of an index is a function of its key set, not of what was built before it
		big := vSweep(vParam("pre"))
		var err3 error
		if po := vParamDef("preopt", -1); po >= 0 {
			// ... nor of the options an earlier build was given
			_, err3 = NewSlimTrie(encode.Dummy{}, big, nil, vOptCase(po))
		} else {
			_, err3 = NewSlimTrie(encode.Dummy{}, big, nil)
		}
		a2, err4 := NewSlimTrie(encode.Dummy{}, k2, nil)
		vAssert(err3 == nil && err4 == nil, "build-ok")
		if err4 == nil {
			vAssert(vMeasure(a2.inner) == ma, "C17.size-independent-of-history")
			vAssert(vDeepEqual(a2.inner, a.inner), "C17.size-independent-of-history")
			b2, _ := a2.Marshal()
			vAssert(vNativeTrue(len(b2) == len(ba)), "C17.size-independent-of-history.bytes(native)")
		}
	}
	vObserve("measure", ma)
	vReach("end")
}

// vVarint64 is the exact proto3 varint size of v; vVarintMax bounds it for symbolic words.
func vBitmapMeasure(b *Bitmap, exact bool) int {
	if b == nil {
		return 0
	}
	m := 0
	// three packed repeated fields: tag + length prefix (<= 4 bytes) each when non-empty
	if len(b.Words) > 0 {
		m += 1 + 4 + 10*len(b.Words)
	}
	if len(b.RankIndex) > 0 {
		m += 1 + 4 + 5*len(b.RankIndex)
	}
	if len(b.SelectIndex) > 0 {
		m += 1 + 4 + 5*len(b.SelectIndex)
	}
	return m + 1 + 4 // embedding: tag + length
}

func vVLenMeasure(v *VLenArray) int {
	if v == nil {
		return 0
	}
	m := 4 * (1 + 5) // N, EltCnt, FixedSize + slack
	m += vBitmapMeasure(v.PresenceBM, false) + vBitmapMeasure(v.PositionBM, false)
	if len(v.Bytes) > 0 {
		m += 1 + 4 + len(v.Bytes)
	}
	return m + 1 + 4
}

// vMeasure: an upper bound of the proto3 size of the message (10 bytes per bitmap word,
// 5 per int32, 1 per byte, plus tags and length prefixes).
func vMeasure(s *Slim) int {
	m := 2 * (1 + 5) // ShortSize, BigInnerCnt
	m += vBitmapMeasure(s.NodeTypeBM, false) + vBitmapMeasure(s.Inners, false) + vBitmapMeasure(s.ShortBM, false)
	if len(s.ShortTable) > 0 {
		m += 1 + 4 + 5*len(s.ShortTable)
	}
	m += vVLenMeasure(s.InnerPrefixes) + vVLenMeasure(s.LeafPrefixes) + vVLenMeasure(s.Leaves)
	return m
}

func vAbsDiff(a, b int) int {
	if a > b {
		return a - b
	}
	return b - a
}

// relational clause: K versus P+K for a concrete prefix P.
func H_l2_size_rel() {
	n := vParam("n")
	keys := vSymKeys(vLens(vParam("lens"), n, vParam("L")), true)
	plen := vParam("plen")
	p := make([]byte, plen)
	for i := range p {
		p[i] = byte('a' + i%7)
	}
	P := string(p)
	pkeys := make([]string, n)
	for i := range keys {
		pkeys[i] = P + keys[i]
	}
	a, err1 := NewSlimTrie(encode.Dummy{}, keys, nil)
	b, err2 := NewSlimTrie(encode.Dummy{}, pkeys, nil)
	vAssert(err1 == nil && err2 == nil, "build-ok")
	if err1 != nil || err2 != nil {
		vAssume(false)
	}
	ma, mb := vMeasure(a.inner), vMeasure(b.inner)
	vAssert(vAbsDiff(ma, mb) <= 24, "C17.length-independent.measure")
	ba, _ := a.Marshal()
	bb, _ := b.Marshal()
	// facts about the real protobuf encoder: native replays only
	vAssert(vNativeTrue(vAbsDiff(len(ba), len(bb)) <= 16), "C17.length-independent.bytes(native)")
	vAssert(vNativeTrue(len(ba) <= 32+ma && len(bb) <= 32+mb), "C17.measure-is-upper-bound(native)")
	vAssert(vNativeTrue(len(bb) <= 8*n+256+32), "C17.linear.bytes(native)")
	vObserve("measure", ma)
	vReach("end")
}

// vFamily: adversarial concrete key families with a symbolic leaf tail byte.
func vFamily(id, n int) []string {
	var ks []string
	switch id {
	case 0: // binary caterpillar
		p := ""
		for i := 0; i < n-1; i++ {
			ks = append(ks, p+"a")
			p += "b"
		}
		ks = append(ks, p)
	case 1: // every inner node has a long step
		for i := 0; i < n; i++ {
			k := ""
			x := i
			for d := 0; d < 8; d++ {
				k += string([]byte{byte('a' + x%2)}) + "long-shared-run-of-bytes"
				x /= 2
			}
			ks = append(ks, k)
		}
	case 2: // fan-out 11 byte nodes
		for i := 0; i < n; i++ {
			ks = append(ks, string([]byte{byte(0x10 + (i/121)%11*0x15), byte(0x10 + (i/11)%11*0x15), byte(0x10 + i%11*0x15)}))
		}
	case 5: // many groups "user%02d:" + {mail,name,profile}: dozens of inner nodes with short steps
		for i := 0; i < n/3; i++ {
			u := "user" + string([]byte{byte('0' + i/10), byte('0' + i%10)}) + ":"
			ks = append(ks, u+"mail", u+"name", u+"profile")
		}
	case 4: // a shared run in front of a 257-bit node: 16 keys P + distinct byte
		p := ""
		for i := 0; i < 64; i++ {
			p += string([]byte{byte('a' + i%5)})
		}
		for i := 0; i < n; i++ {
			ks = append(ks, p+string([]byte{byte(0x10 + (i%16)*0x0f), byte('a' + i/16)}))
		}
	case 3: // many distinct label bitmaps: group g has children selected by the bits of g
		g := 1
		for len(ks) < n {
			p := string([]byte{byte('A' + g/64), byte('0' + g%64)})
			for b := 0; b < 8 && len(ks) < n; b++ {
				if g&(1<<uint(b)) != 0 {
					ks = append(ks, p+string([]byte{byte('a' + b)}))
				}
			}
			g++
		}
	}
	return vSorted(vUniq(vSorted(ks)))
}

func vUniq(ks []string) []string {
	var out []string
	for i, k := range ks {
		if i == 0 || k != ks[i-1] {
			out = append(out, k)
		}
	}
	return out
}

func H_l3_size_abs() {
	keys := vFamily(vParam("family"), vParam("n"))
	n := len(keys)
	// a symbolic tail byte on the last key (content must not matter)
	keys[n-1] = keys[n-1] + vString("tail", 1)
	st, err := NewSlimTrie(encode.Dummy{}, keys, nil)
	vAssert(err == nil, "build-ok")
	if err != nil {
		vAssume(false)
	}
	m := vMeasure(st.inner)
	vAssert(m <= 8*n+256, "C17.upper-measure")
	b, _ := st.Marshal()
	vAssert(vNativeTrue(len(b) <= 8*n+256), "C17.linear.bytes(native)")
	vAssert(vNativeTrue(len(b) <= 32+m), "C17.measure-is-upper-bound(native)")
	// the serialized size of an index loaded from a larger region (stream followed by other data)
	// is the size of the index
	region := append(append([]byte{}, b...), make([]byte, 1000)...)
	st2, _ := NewSlimTrie(encode.Dummy{}, nil, nil)
	if err2 := st2.Unmarshal(region); err2 == nil {
		b2, _ := st2.Marshal()
		vAssert(len(b2) == len(b), "C17.size-after-load-from-region")
		vAssert(vMeasure(st2.inner) <= 8*n+256, "C17.upper-measure")
	} else {
		vAssert(false, "C17.load-from-region")
	}
	vObserve("n", n)
	vObserve("measure", m)
	vReach("end")
}
