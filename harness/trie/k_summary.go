//go:build verif
// +build verif

package trie

// L1 kernel lemma (one file per lemma: a lemma that no longer compiles against changed
// internals is dropped alone, see engine loadProgram).

import (
	"github.com/openacid/low/bmtree"
)

func init() {
	vRegister("k_path_summary", H_k_path_summary)
}

// A9 (licenses the engine's summary of bmtree.PathToIndex): for bitmap sizes 17 and 257
// the real PathToIndex maps the empty path to 0 and a full-height path with bits v to 1+v.
// Run with the summary switched off, so that the real code is what is executed.
func H_k_path_summary() {
	size := int32(vParam("size"))
	h := int32(4)
	if size == 257 {
		h = 8
	}
	vAssert(bmtree.PathToIndex(size, bmtree.NewPath(0, 0, h)) == 0, "summary.empty")
	var v uint64
	if h == 4 {
		v = uint64(vByte("v") & 0xf)
	} else {
		v = uint64(vByte("v"))
	}
	p := bmtree.NewPath(v, h, h)
	vAssert(bmtree.PathLen(p) == h, "summary.len")
	vAssert(bmtree.PathToIndex(size, p) == 1+int32(v), "summary.full")
	// and PathOf produces exactly such paths for aligned positions inside a key
	k := vString("k", 2)
	if h == 4 {
		for pos := int32(0); pos < 16; pos += 4 {
			pp := bmtree.PathOf(k, pos, 4)
			nib := k[pos>>3]
			if pos&7 < 4 {
				nib >>= 4
			}
			nib &= 0xf
			vAssert(pp == bmtree.NewPath(uint64(nib), 4, 4), "summary.pathof")
		}
		vAssert(bmtree.PathOf(k, 16, 4) == bmtree.NewPath(0, 0, 4), "summary.pathof.end")
	} else {
		for pos := int32(0); pos < 16; pos += 8 {
			vAssert(bmtree.PathOf(k, pos, 8) == bmtree.NewPath(uint64(k[pos>>3]), 8, 8), "summary.pathof")
		}
		vAssert(bmtree.PathOf(k, 16, 8) == bmtree.NewPath(0, 0, 8), "summary.pathof.end")
	}
	vObserve("idx", bmtree.PathToIndex(size, p))
	vReach("end")
}
