//go:build verif
// +build verif

package trie

import (
	"github.com/openacid/errors"
	"github.com/openacid/slim/encode"
)

// C08 — construction is all-or-nothing.

func init() {
	vRegister("l2_order", H_l2_order)
	vRegister("l3_order_deep", H_l3_order_deep)
	vRegister("l3_longrun", H_l3_longrun)
}

// (a) order check: n symbolic keys WITHOUT the ascending assumption:
// rejected with ErrKeyOutOfOrder  <=>  some neighbours are not strictly ascending.
func H_l2_order() {
	n := vParam("n")
	L := vParam("L")
	lens := vLens(vParam("lens"), n, L)
	keys := vSymKeys(lens, false)
	unordered := false
	for i := 0; i+1 < n; i++ {
		unordered = vOr(unordered, vNot(vStrLt(keys[i], keys[i+1])))
	}
	vals := make([]uint16, n)
	for i := range vals {
		vals[i] = vU16("v")
	}
	st, err := NewSlimTrie(encode.U16{}, keys, vals, vOptCase(vParam("opt")))
	vAssert((err != nil) == unordered, "C08.rejected-iff-unordered")
	if err != nil {
		vAssert(errors.Cause(err) == ErrKeyOutOfOrder, "C08.cause")
		vAssert(st == nil, "C08.nil-trie")
	} else {
		vAssert(st != nil, "C08.trie")
		// accepted => every key can be looked up (distinct values are not required:
		// RangeGet finds every indexed key)
		ok := true
		for i := 0; i < n; i++ {
			v, found := st.RangeGet(keys[i])
			ok = vAnd(ok, vAnd(found, v != nil && v.(uint16) == vals[i]))
		}
		vAssert(ok, "C08.accepted-correct")
	}
	vObserve("rejected", err != nil)
	vReach("end")
}

// deep order violation: a 64-key concrete list in which the pair at position i is symbolic.
func H_l3_order_deep() {
	pos := vParam("pos")
	var keys []string
	for i := 0; i < 64; i++ {
		keys = append(keys, string([]byte{byte('A' + i/8), byte('a' + i%8), 'x'}))
	}
	// replace keys[pos], keys[pos+1] by symbolic 3-byte keys that fit between their neighbours or not
	a := vString("k", 3)
	b := vString("k", 3)
	lo, hi := "", "\xff\xff\xff\xff"
	if pos > 0 {
		lo = keys[pos-1]
	}
	if pos+2 < len(keys) {
		hi = keys[pos+2]
	}
	vAssume(vStrLt(lo, a))
	vAssume(vStrLt(b, hi))
	keys[pos], keys[pos+1] = a, b
	unordered := vNot(vStrLt(a, b))
	st, err := NewSlimTrie(encode.U16{}, keys, nil)
	vAssert((err != nil) == unordered, "C08.rejected-iff-unordered")
	if err != nil {
		vAssert(errors.Cause(err) == ErrKeyOutOfOrder, "C08.cause")
		vAssert(st == nil, "C08.nil-trie")
	} else {
		_, f1 := st.Get(a)
		_, f2 := st.Get(b)
		vAssert(f1 && f2, "C08.accepted-correct")
	}
	vObserve("rejected", err != nil)
	vReach("end")
}

// (c) long shared runs: either the builder refuses, or every key is found.
// keys: "a", P+ta, P+tb, "z" with P = run bytes of 'x' and symbolic tails.
func H_l3_longrun() {
	run := vParam("run")
	p := make([]byte, run)
	for i := range p {
		p[i] = 'x'
	}
	P := string(p)
	var keys []string
	var vals []uint16
	if vParamDef("fan", 2) <= 2 {
		ta := vString("t", 1)
		tb := vString("t", 1)
		vAssume(vStrLt(ta, tb))
		keys = []string{"a", P + ta, P + tb, "z"}
		vals = []uint16{1, 2, 3, 4}
		// the list must be ascending (only an empty run leaves that to the tails)
		vAssume(vStrLt(keys[0], keys[1]))
		vAssume(vStrLt(keys[2], keys[3]))
	} else {
		// the run ends at a 257-bit node: `fan` keys P + distinct byte + symbolic tail
		fan := vParam("fan")
		for i := 0; i < fan; i++ {
			tail := "x"
			if i == fan-1 {
				tail = vString("t", 1) // one symbolic tail (more would fork per pair in the builder's prefix-count map)
			}
			keys = append(keys, P+string([]byte{byte(0x08 + i*0x0f)})+tail)
			vals = append(vals, uint16(i+1))
		}
	}
	st, err := NewSlimTrie(encode.U16{}, keys, vals, vOptCase(vParam("opt")))
	if err != nil {
		vAssert(st == nil, "C08.nil-trie")
		vAssert(errors.Cause(err) == ErrStepTooLong, "C08.longrun.cause")
		// rejection is allowed only beyond the documented 16 KiB key length
		vAssert(run > 16384, "C08.within-limits-accepted")
	} else {
		ok := true
		for i := range keys {
			v, found := st.Get(keys[i])
			ok = vAnd(ok, vAnd(found, v != nil && v.(uint16) == vals[i]))
		}
		vAssert(ok, "C08.found-or-refused")
	}
	vObserve("rejected", err != nil)
	vReach("end")
}
