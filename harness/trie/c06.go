//go:build verif
// +build verif

package trie

import (
	"bytes"
	"math/bits"

	"github.com/openacid/low/bitmap"
	"github.com/openacid/low/pbcmpl"
	"github.com/openacid/slim/array"
	"github.com/openacid/slim/encode"
)

// C06 — data written by every older compatible version loads and answers correctly.
//
// No old writer exists in the repository.  The two writer models below follow the
// specification in DESIGN.md Appendix G and are validated against every archived
// fixture by the native test zz_verif_legacy_test.go (assumption A-LW).

func init() {
	vRegister("l2_legacy0509", H_l2_legacy0509)
	vRegister("l2_legacy0510", H_l2_legacy0510)
	vRegister("l3_legacy", H_l3_legacy)
}

// vLegacyLoad0509 writes keys/values in a pre-0.5.10 layout and loads them.
func vLegacyLoad0509(keys []string, vals []uint16, variant int, ver string) (*SlimTrie, error) {
	t := vLegacyBuild(keys, variant&4 != 0)
	hi := make([]uint16, len(t.childBM))
	for i := range hi {
		hi[i] = uint16(t.childFirst[i])
	}
	elts := make([]uint16, len(t.leafKey))
	for i, k := range t.leafKey {
		elts[i] = vals[k]
	}
	ch, stp, lv := vLegacyArrays(t, variant, hi, elts, encode.U16{})
	st, _ := NewSlimTrie(encode.U16{}, nil, nil)
	err := st.Unmarshal(vLegacyStream(ver, ch, stp, lv))
	return st, err
}

// L3: concrete skeleton key sets through both writer models, symbolic query.
func H_l3_legacy() {
	c := &vT{enc: vEncU16}
	c.keys = vSkeleton(vParam("skel"))
	c.n = len(c.keys)
	model := vParam("model") // 0: pre-0.5.10 (variant), 1: 0.5.10 layout (opt)
	vConcreteValues(c, 0)
	q := vString("q", vParam("lq"))
	if model == 0 {
		c.optc = 0
		c.ret = make([]bool, c.n)
		for i := range c.ret {
			c.ret[i] = true
		}
		st, err := vLegacyLoad0509(c.keys, c.u16, vParam("variant"), "1.0.0")
		vAssert(err == nil, "C06.load-ok")
		if err != nil {
			vAssume(false)
		}
		c.checkLegacyLoaded(st)
		c.st = st
		c.checkC10(q)
	} else {
		c.optc = vParam("opt")
		c.build()
		ref := c.st
		old, err := NewSlimTrie(c.encoder(), c.keys, c.values(), vOptCase(c.optc))
		vAssert(err == nil, "build-ok")
		vTo0510(old.inner)
		vReserved0510(old.inner)
		stream := vOldMarshal(old.inner)
		vSetVersion(stream, "0.5.10")
		st, _ := NewSlimTrie(c.encoder(), nil, nil)
		err = st.Unmarshal(stream)
		vAssert(err == nil, "C06.load-ok")
		if err != nil {
			vAssume(false)
		}
		okG := true
		for i := 0; i < c.n; i++ {
			v, f := st.Get(c.keys[i])
			okG = vAnd(okG, vImplies(c.ret[i], vAnd(f, c.valEq(v, i))))
		}
		vAssert(okG, "C06.get")
		c.sameAnswers(ref, st, q, "C06.same")
		vAssert(vDeepEqual(ref.Stat(), st.Stat()), "C06.stat")
	}
	vReach("end")
}

// ---------- G.1: layouts 0.5.0 … 0.5.9 ----------

type vLegacyTrie struct {
	childIdx   []int32
	childBM    []uint16
	childFirst []int32
	stepIdx    []int32
	steps      []uint16
	leafIdx    []int32
	leafKey    []int32 // index of the key whose value the leaf carries
	nodeCnt    int32
}

func vNibLen(k string) int { return 2 * len(k) }

func vNib(k string, i int) byte {
	b := k[i>>1]
	if i&1 == 0 {
		return b >> 4
	}
	return b & 0xf
}

type vSub struct{ s, e, from int }

// vLegacyBuild: nibble trie with squashed single-branch runs, breadth-first node ids.
func vLegacyBuild(keys []string, leafSteps bool) *vLegacyTrie {
	t := &vLegacyTrie{}
	n := len(keys)
	if n == 0 {
		return t
	}
	queue := []vSub{{0, n, 0}}
	for id := 0; id < len(queue); id++ {
		o := queue[id]
		if o.e-o.s == 1 {
			t.leafIdx = append(t.leafIdx, int32(id))
			t.leafKey = append(t.leafKey, int32(o.s))
			if leafSteps {
				st := vNibLen(keys[o.s]) - o.from + 1
				if st > 1 {
					t.stepIdx = append(t.stepIdx, int32(id))
					t.steps = append(t.steps, uint16(st))
				}
			}
			continue
		}
		pos := o.from
		for {
			if vNibLen(keys[o.s]) == pos {
				break
			}
			same := true
			for j := o.s + 1; j < o.e; j++ {
				if vNib(keys[j], pos) != vNib(keys[o.s], pos) {
					same = false
					break
				}
			}
			if !same {
				break
			}
			pos++
		}
		step := pos - o.from + 1
		if step > 1 {
			t.stepIdx = append(t.stepIdx, int32(id))
			t.steps = append(t.steps, uint16(step))
		}
		s := o.s
		if vNibLen(keys[s]) == pos {
			t.leafIdx = append(t.leafIdx, int32(id))
			t.leafKey = append(t.leafKey, int32(s))
			s++
		}
		bm := uint16(0)
		first := len(queue)
		for s < o.e {
			nb := vNib(keys[s], pos)
			j := s + 1
			for j < o.e && vNib(keys[j], pos) == nb {
				j++
			}
			bm |= uint16(1) << nb
			queue = append(queue, vSub{s, j, pos + 1})
			s = j
		}
		t.childIdx = append(t.childIdx, int32(id))
		t.childBM = append(t.childBM, bm)
		t.childFirst = append(t.childFirst, int32(first))
	}
	t.nodeCnt = int32(len(queue))
	return t
}

type vVerMsg struct {
	*array.Array32
	ver string
}

func (v *vVerMsg) GetVersion() string { return v.ver }

func vExtend(a *array.Array32, nodeCnt int32) {
	words := int((nodeCnt + 63) >> 6)
	for len(a.Bitmaps) < words {
		a.Bitmaps = append(a.Bitmaps, 0)
		a.Offsets = append(a.Offsets, 0)
	}
}

// vLegacyArrays builds the three arrays of a pre-0.5.10 stream.
// variant bit0: children as 16-bit bitmap elements (0.5.4+) instead of u32;
// bit1: extended index bitmaps (0.5.9); bit2: steps on leaf-only nodes (0.5.0).
// hi: upper halves of the u32 children elements (first-child ids, as the historical writers stored them).
func vLegacyArrays(t *vLegacyTrie, variant int, hi []uint16, leafElts interface{}, enc encode.Encoder) (*array.Array32, *array.Array32, *array.Array32) {
	var ch *array.Array32
	if variant&1 == 0 {
		elts := make([]uint32, len(t.childBM))
		for i := range elts {
			elts[i] = uint32(t.childBM[i]) | uint32(hi[i])<<16
		}
		a, err := array.NewU32(t.childIdx, elts)
		if err != nil {
			panic(err)
		}
		ch = &a.Array32
	} else {
		b := &array.Base{}
		if err := b.InitIndex(t.childIdx); err != nil {
			panic(err)
		}
		ch = &b.Array32
		ch.Flags = 3
		ch.EltWidth = 16
		words := make([]uint64, (len(t.childBM)+3)/4)
		for i, bm := range t.childBM {
			words[i/4] |= uint64(bm) << (uint(i%4) * 16)
		}
		ch.BMElts = &array.Bits{N: int32(len(t.childBM) * 16), Words: words}
	}
	st, err := array.NewU16(t.stepIdx, t.steps)
	if err != nil {
		panic(err)
	}
	lv := &array.Array{}
	lv.EltEncoder = enc
	if err := lv.Init(t.leafIdx, leafElts); err != nil {
		panic(err)
	}
	if variant&2 != 0 {
		vExtend(ch, t.nodeCnt)
		vExtend(&st.Array32, t.nodeCnt)
	}
	return ch, &st.Array32, &lv.Array32
}

func vLegacyStream(ver string, ch, st, lv *array.Array32) []byte {
	w := &bytes.Buffer{}
	for _, a := range []*array.Array32{ch, st, lv} {
		if _, err := pbcmpl.Marshal(w, &vVerMsg{a, ver}); err != nil {
			panic(err)
		}
	}
	return w.Bytes()
}

// assertions shared by both legacy harnesses: every key is indexed (legacy writers did
// not de-duplicate) and answers Get / RangeGet / Search exactly.
func (c *vT) checkLegacyLoaded(st *SlimTrie) {
	okG, okR, okS := true, true, true
	for i := 0; i < c.n; i++ {
		v, f := st.Get(c.keys[i])
		okG = vAnd(okG, vAnd(f, c.valEq(v, i)))
		rv, rf := st.RangeGet(c.keys[i])
		okR = vAnd(okR, vAnd(rf, c.valEq(rv, i)))
		l, e, r := st.Search(c.keys[i])
		okS = vAnd(okS, vAnd(e != nil, c.valEq(e, i)))
		if i > 0 {
			okS = vAnd(okS, vAnd(l != nil, c.valEq(l, i-1)))
		} else {
			okS = vAnd(okS, l == nil)
		}
		if i+1 < c.n {
			okS = vAnd(okS, vAnd(r != nil, c.valEq(r, i+1)))
		} else {
			okS = vAnd(okS, r == nil)
		}
	}
	vAssert(okG, "C06.get")
	vAssert(okR, "C06.range")
	vAssert(okS, "C06.search")
	vAssert(int(st.Stat().KeyCnt) == c.n, "C06.keycnt")
}

func H_l2_legacy0509() {
	c := &vT{n: vParam("n"), enc: vEncU16, optc: 0}
	c.keys = vSymKeys(vLens(vParam("lens"), c.n, vParam("L")), true)
	if vParamDef("alpha", 0) == 1 {
		for _, k := range c.keys {
			for i := 0; i < len(k); i++ {
				b := k[i]
				vAssume(vOr(vOr(b == 0x00, b == 0x01), vOr(vOr(b == 0x10, b == 0x7f), vOr(b == 0x80, b == 0xff))))
			}
		}
	}
	c.symValues()
	c.ret = make([]bool, c.n)
	for i := range c.ret {
		c.ret[i] = true
	}
	variant := vParam("variant")
	t := vLegacyBuild(c.keys, variant&4 != 0)
	hi := make([]uint16, len(t.childBM))
	for i := range hi {
		// what the historical writers stored there: the id of the node's first child
		// (validated against every archived fixture).  The loader is free to use or ignore it.
		hi[i] = uint16(t.childFirst[i])
	}
	elts := make([]uint16, len(t.leafKey))
	for i, k := range t.leafKey {
		elts[i] = c.u16[k]
	}
	ch, stp, lv := vLegacyArrays(t, variant, hi, elts, encode.U16{})
	ver := []string{"1.0.0", "0.5.8", "0.5.9"}[vParam("hdr")]
	stream := vLegacyStream(ver, ch, stp, lv)
	st, _ := NewSlimTrie(encode.U16{}, nil, nil)
	err := st.Unmarshal(stream)
	vAssert(err == nil, "C06.load-ok")
	if err != nil {
		vAssume(false)
	}
	c.checkLegacyLoaded(st)
	if c.n == 0 {
		_, f := st.Get("x")
		vAssert(!f, "C06.empty")
	}
	// C20 for legacy streams: the buffer is neither retained nor needed afterwards
	vAssert(!vReachable(st, stream), "C06.buf-not-retained")
	vHavocBytes(stream, "junk")
	c.checkLegacyLoaded(st)
	vReach("end")
}

// ---------- G.2: layouts 0.5.10 / 0.5.11 ----------

// vTo0510 rewrites a message produced by the current builder into the 0.5.10 layout:
// control-byte inner prefixes and bare leaf bytes (fixed-width values only).
func vTo0510(ns *Slim) {
	ips := ns.InnerPrefixes
	if ips != nil && ips.PositionBM != nil && len(ips.Bytes) > 0 {
		pos := bitmap.ToArray(ips.PositionBM.Words)
		for i := 0; i+1 < len(pos); i++ {
			old := ips.Bytes[pos[i]:pos[i+1]]
			pl := len(old) - 1
			m := old[pl]
			payload := append([]byte{}, old[:pl]...)
			if m == 0xff {
				old[0] = 0
			} else {
				k := uint(bits.OnesCount8(m))
				payload[pl-1] = payload[pl-1]&m | byte(1)<<(7-k)
				old[0] = 1
			}
			copy(old[1:], payload)
		}
	}
	if ns.Leaves != nil {
		ns.Leaves = &VLenArray{Bytes: ns.Leaves.Bytes}
	}
}

// vLegacyLoad0510 loads the 0.5.10-layout stream (writer model G.2) of the trie described by c.
func vLegacyLoad0510(c *vT, ver string) (*SlimTrie, error) {
	old, err := NewSlimTrie(c.encoder(), c.keys, c.values(), vOptCase(c.optc))
	if err != nil {
		return nil, err
	}
	vTo0510(old.inner)
	vReserved0510(old.inner)
	stream := vOldMarshal(old.inner)
	vSetVersion(stream, ver)
	st, _ := NewSlimTrie(c.encoder(), nil, nil)
	err = st.Unmarshal(stream)
	return st, err
}

// vOldMarshal is the old writer's serialisation step: header + protobuf body of the message
// (the model does not go through the current SlimTrie.Marshal).
func vOldMarshal(ns *Slim) []byte {
	w := bytes.NewBuffer(nil)
	_, err := pbcmpl.Marshal(w, ns)
	vAssert(err == nil, "model-marshal-ok")
	return w.Bytes()
}

// vReserved0510: 0.5.10 writers also emitted field 13 (ShortMinusInner = -17 in every non-empty
// archived sample), reserved today; it reaches the loaded message as an unknown field.
func vReserved0510(ns *Slim) {
	if ns.NodeTypeBM != nil {
		ns.XXX_unrecognized = []byte{0x68, 0xef, 0xff, 0xff, 0xff, 0xff, 0xff, 0xff, 0xff, 0xff, 0x01}
	}
}

func H_l2_legacy0510() {
	c := &vT{n: vParam("n"), enc: vParam("enc"), optc: vParam("opt")}
	c.keys = vSymKeys(vLens(vParam("lens"), c.n, vParam("L")), true)
	if vParamDef("alpha", 0) == 1 {
		for _, k := range c.keys {
			for i := 0; i < len(k); i++ {
				b := k[i]
				vAssume(vOr(vOr(b == 0x00, b == 0x01), vOr(vOr(b == 0x10, b == 0x7f), vOr(b == 0x80, b == 0xff))))
			}
		}
	}
	c.symValues()
	c.build()
	ref := c.st
	// a second build gives the message that is rewritten into the old layout
	old, err := NewSlimTrie(c.encoder(), c.keys, c.values(), vOptCase(c.optc))
	vAssert(err == nil, "build-ok")
	vTo0510(old.inner)
	vReserved0510(old.inner)
	stream := vOldMarshal(old.inner)
	vSetVersion(stream, []string{"0.5.10", "0.5.11"}[vParam("hdr")])
	st, _ := NewSlimTrie(c.encoder(), nil, nil)
	err = st.Unmarshal(stream)
	vAssert(err == nil, "C06.load-ok")
	if err != nil {
		vAssume(false)
	}
	q := vString("q", vParam("lq"))
	// answers exactly as the index it encodes (the same keys built by the current builder)
	c.sameAnswers(ref, st, q, "C06.same")
	vAssert(vDeepEqual(ref.Stat(), st.Stat()), "C06.stat")
	okG := true
	for i := 0; i < c.n; i++ {
		v, f := st.Get(c.keys[i])
		okG = vAnd(okG, vImplies(c.ret[i], vAnd(f, c.valEq(v, i))))
	}
	vAssert(okG, "C06.get")
	if vOptComplete(c.optc) {
		c.st = st
		c.checkExact(q, "C06.exact")
		if c.n <= 1 || vParamDef("alpha", 0) == 1 {
			c.sameScan(ref, st, q, "C06")
		}
	}
	vAssert(!vReachable(st, stream), "C06.buf-not-retained")
	vReach("end")
}
