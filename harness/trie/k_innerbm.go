//go:build verif
// +build verif

package trie

// L1 kernel lemma (one file per lemma: a lemma that no longer compiles against changed
// internals is dropped alone, see engine loadProgram).

import ()

func init() {
	vRegister("k_innerbm", H_k_innerbm)
}

// A12 (first half): the bitmap of a plain 17-bit or 257-bit inner node read by getInnerBM
// at every alignment equals the bits of Inners (three/seven symbolic words).
func H_k_innerbm() {
	from := int32(vParam("from"))
	size := int32(vParam("size"))
	nw := 3
	if size == 257 {
		nw = 7
	}
	if int(from+size) > 64*nw {
		vAssume(false)
	}
	// bitmap.Slice tests the node's bits one by one (a fork per symbolic bit), so only five
	// bits are symbolic: the node's first, middle and last bit and the two bits just
	// outside it; every other bit follows a fixed irregular pattern
	words := make([]uint64, nw)
	for i := range words {
		words[i] = 0x9e3779b97f4a7c15 * uint64(i+1)
	}
	for _, p := range []int32{from - 1, from, from + size/2, from + size - 1, from + size} {
		if p < 0 || int(p) >= 64*nw {
			continue
		}
		bit := uint64(1) << uint(p&63)
		words[p>>6] = words[p>>6]&^bit | uint64(vB2I(vBool("b")))<<uint(p&63)
	}
	ns := &Slim{ShortSize: 0}
	ns.Inners = &Bitmap{Words: words}
	st := &SlimTrie{inner: ns}
	qr := &querySession{from: from, to: from + size}
	bm, sz := st.getInnerBM(qr)
	vAssert(sz == size, "A12.size")
	ok := len(bm) >= int((size+63)>>6)
	for w := int32(0); ok && w*64 < size; w++ {
		n := size - w*64
		if n > 32 {
			// compare in two halves (vBitsOf handles <= 32 bits at a time)
			lo := vBitsOf(words, from+w*64, 32)
			m := n - 32
			if m > 32 {
				m = 32
			}
			hi := vBitsOf(words, from+w*64+32, m)
			ok = vAnd(ok, bm[w] == lo|hi<<32)
		} else {
			ok = vAnd(ok, bm[w] == vBitsOf(words, from+w*64, n))
		}
	}
	vAssert(ok, "A12.bits")
	vObserve("bm0", bm[0])
	vReach("end")
}
