//go:build verif
// +build verif

package trie

// L1 kernel lemma (one file per lemma: a lemma that no longer compiles against changed
// internals is dropped alone, see engine loadProgram).

func init() {
	vRegister("k_shortnode", H_k_shortnode)
}

// A11: table-compressed (short) inner nodes at every alignment.  Synthetic state: all
// inner nodes short, ShortSize s, three symbolic Inners words, symbolic ShortTable;
// the k-th inner node sits at bit s*k.  getIthInner / getIthInnerFrom / getNode must
// read exactly bits [s*k, s*k+s) and translate them through the table.
func H_k_shortnode() {
	s := int32(vParam("s"))
	k := int32(vParam("k"))
	if s*k+s > 128 {
		vAssume(false)
	}
	// exactly as many words as the node needs (a node ending on a word boundary is the
	// last thing in the bitmap), or one spare word
	nw := int((s*k+s+63)>>6) + vParam("spare")
	words := make([]uint64, nw)
	for i := range words {
		words[i] = vU64("w")
	}
	tab := make([]uint32, 1<<uint(s))
	for i := range tab {
		if s <= 5 {
			tab[i] = vU32("t") & 0x1ffff
		} else {
			tab[i] = uint32(i*2654435761) & 0x1ffff
		}
	}
	nInner := k + 1
	idx := make([]int32, nInner)
	for i := range idx {
		idx[i] = int32(i)
	}
	ns := &Slim{ShortSize: s, ShortTable: tab, BigInnerCnt: 0}
	ns.ShortBM = newBM(idx, nInner, "r64")
	ns.NodeTypeBM = newBM(idx, nInner+1, "r64")
	ns.Inners = &Bitmap{Words: words}
	ns.Inners.indexit("r128")
	ns.InnerPrefixes = &VLenArray{PresenceBM: newBM(nil, nInner, "r128")}
	st := &SlimTrie{inner: ns}
	st.initVars()
	want := uint64(tab[vBitsOf(words, s*k, s)])
	qr := &querySession{}
	st.getIthInner(k, qr)
	vAssert(qr.from == s*k && qr.to == s*k+s, "A11.ithinner.range")
	vAssert(qr.bm == want, "A11.ithinner.bm")
	q2 := &querySession{}
	st.getIthInnerFrom(k, q2)
	vAssert(q2.from == s*k, "A11.ithinnerfrom")
	q3 := &querySession{}
	st.getNode(k, q3)
	vAssert(q3.isInner == 1 && q3.from == s*k && q3.to == s*k+s && q3.bm == want, "A11.getnode")
	vObserve("bm", qr.bm)
	vReach("end")
}
