//go:build verif
// +build verif

package trie

// L1 kernel lemma (one file per lemma: a lemma that no longer compiles against changed
// internals is dropped alone, see engine loadProgram).

func init() {
	vRegister("k_fixleaf", H_k_fixleaf)
}

// the 0.5.10 leaf fix-up: bare leaf bytes of n fixed-width values become an array whose
// get(i) returns value i, for leaf counts around the 64-bit word boundaries.
func H_k_fixleaf() {
	n := vParam("n")
	bs := vBytes("leaf", 2*n)
	st := &SlimTrie{inner: &Slim{}, encoder: vU16Encoder()}
	if n > 0 {
		st.inner.Leaves = &VLenArray{Bytes: bs}
	}
	before000512FixLeafSize(st)
	if n == 0 {
		vAssert(st.inner.Leaves == nil, "fixleaf.empty")
	} else {
		lv := st.inner.Leaves
		vAssert(int(lv.N) == n && int(lv.EltCnt) == n && lv.FixedSize == 2, "fixleaf.counts")
		i := int32(vU16("i"))
		vAssume(i < int32(n))
		got := lv.get(i)
		vAssert(len(got) == 2 && got[0] == bs[2*i] && got[1] == bs[2*i+1], "fixleaf.get")
	}
	vReach("end")
}
