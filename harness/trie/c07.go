//go:build verif
// +build verif

package trie

import (
	"github.com/openacid/errors"
	"github.com/openacid/slim/encode"
)

// C07 — incompatible versions and interrupted writes are rejected, never half-loaded.

func init() {
	vRegister("ver_gate", H_ver_gate)
	vRegister("trunc", H_trunc)
	vRegister("failed_load", H_failed_load)
}

func vSmallTrie(optc int) *SlimTrie {
	st, err := NewSlimTrie(encode.U16{}, []string{"ab", "ac", "b"}, []uint16{1, 2, 3}, vOptCase(optc))
	if err != nil {
		panic(err)
	}
	return st
}

// vSetVersion overwrites the 16 version bytes of a stream with ver, NUL padded.
func vSetVersion(b []byte, ver string) {
	for i := 0; i < 16; i++ {
		if i < len(ver) {
			b[i] = ver[i]
		} else {
			b[i] = 0
		}
	}
}

func vHasPrefix(s, p string) bool {
	if len(s) < len(p) {
		return false
	}
	return vStrEq(s[:len(p)], p)
}

// inCompatibleSet: one of the six compatible versions, optionally followed by "+build"
// (semver equality ignores build metadata).
func vInCompatibleSet(ver string) bool {
	r := false
	for _, base := range []string{"1.0.0", "0.5.8", "0.5.9", "0.5.10", "0.5.11", slimtrieVersion} {
		r = vOr(r, vStrEq(ver, base))
		if len(ver) > len(base) {
			r = vOr(r, vAnd(vHasPrefix(ver, base), ver[len(base)] == '+'))
		}
	}
	return r
}

// (a) version gate: the version bytes are symbolic.
func H_ver_gate() {
	lv := vParam("lv")
	b, _ := vSmallTrie(vParamDef("opt", 16)).Marshal()
	// an optional concrete prefix (longer strings around the released versions) + symbolic rest
	pre := []string{"", "0.5.", "0.5.1", "1.0.", "0.5.9", "0.5.12"}[vParamDef("pre", 0)]
	ver := pre + vString("ver", lv)
	lv = len(ver)
	if lv > 16 {
		vAssume(false)
	}
	// no NUL inside, so that verStr yields exactly `ver` (a trailing NUL is padding)
	for i := 0; i < lv; i++ {
		vAssume(ver[i] != 0)
	}
	vSetVersion(b, ver)
	st, _ := NewSlimTrie(encode.U16{}, nil, nil)
	var err error
	panicked := vCatch(func() { err = st.Unmarshal(b) })
	vAssert(!panicked, "C07.no-panic")
	if panicked {
		return
	}
	rejected := err != nil && errors.Cause(err) == ErrIncompatible
	vAssert(vOr(rejected, vInCompatibleSet(ver)), "C07.incompatible-rejected")
	if !rejected && err == nil {
		vObserve("accepted", ver)
		// the body is in the current layout: under the current version string it must answer as the
		// trie it was made from (under an older accepted version the loader converts the body, and a
		// relabelled current body is not a stream that version ever wrote: nothing is demanded there)
		v, f := st.Get("ab")
		vAssert(vImplies(vStrEq(ver, slimtrieVersion), f && v != nil && v.(uint16) == 1), "C07.accepted-answers")
	}
	if err != nil {
		// after a rejected load: empty trie
		vAssert(st.GetID("ab") == -1, "C07.empty-after")
	}
	vObserve("rejected", rejected)
	vReach("end")
}

// (b) truncation: every strict prefix of a valid stream is rejected with an error.
func H_trunc() {
	layout := vParam("layout") // 0 current, 1: 0.5.10 header, 2: 0.5.11 header
	b, _ := vSmallTrie(vParam("opt")).Marshal()
	switch layout {
	case 1:
		vSetVersion(b, "0.5.10")
	case 2:
		vSetVersion(b, "0.5.11")
	case 3, 4: // three-section legacy stream from the validated writer model
		t := vLegacyBuild([]string{"ab", "ac", "b"}, false)
		hi := make([]uint16, len(t.childBM))
		ch, stp, lv := vLegacyArrays(t, layout-3, hi, []uint16{1, 2, 3}, encode.U16{})
		b = vLegacyStream([]string{"1.0.0", "0.5.9"}[layout-3], ch, stp, lv)
	}
	// the cut is given relative to a section: sec = section number, pos >= 0 = offset from the
	// section start (0..31 inside its header, 32.. inside its body), pos < 0 = counted back from
	// the section end (-1: the section is complete, the next one missing; -2: last body byte missing).
	// Body sizes differ between the codec stub and real protobuf; section-relative cuts mean the same
	// place in both.
	sec, pos := vParam("sec"), vParam("cut")
	start := 0
	end := 0
	for s := 0; ; s++ {
		if start+32 > len(b) {
			vAssume(false)
		}
		body := 0
		for i := 7; i >= 0; i-- {
			body = body<<8 | int(b[start+24+i])
		}
		end = start + 32 + body
		if s == sec {
			break
		}
		start = end
	}
	cut := start + pos
	if pos < 0 {
		cut = end + pos + 1
	}
	if cut < start || cut > end || cut >= len(b) {
		vAssume(false)
	}
	st, _ := NewSlimTrie(encode.U16{}, nil, nil)
	var err error
	panicked := vCatch(func() { err = st.Unmarshal(b[:cut]) })
	vAssert(!panicked, "C07.cut.no-panic")
	vAssert(panicked || err != nil, "C07.cut-rejected")
	vAssert(vCodecUnrecognised() == 0, "C07.no-partial-parse")
	vAssert(panicked || st.GetID("ab") == -1, "C07.empty-after")
	vObserve("sec", sec)
	vObserve("pos", pos)
	vReach("end")
}

// (c) no half load: the instance first holds a symbolic trie; after a rejected load it
// answers lookups and scans as an empty trie.
func H_failed_load() {
	c := &vT{n: vParam("n"), optc: vParam("opt"), enc: vEncU16}
	c.keys = vSymKeys(vLens(vParam("lens"), c.n, vParam("L")), true)
	c.symValues()
	c.build()
	st := c.reload(c.st) // a loaded instance holding data
	b, _ := vSmallTrie(9).Marshal()
	kind := vParam("kind")
	switch kind {
	case 0: // newer version
		vSetVersion(b, "0.5.13")
	case 1: // unparsable version
		vSetVersion(b, "x.y")
	case 2: // interrupted write (cut inside the header)
		b = b[:vParam("cut")]
	case 3: // interrupted write (cut inside the body)
		b = b[:len(b)-1]
	case 4: // symbolic junk version of 3 bytes
		vSetVersion(b, vString("ver", 3))
	}
	err := st.Unmarshal(b)
	if err != nil {
		q := vString("q", vParam("lq"))
		l, e, r := st.searchID(q)
		vAssert(st.GetID(q) == -1, "C07.empty-after.get")
		vAssert(l == -1 && e == -1 && r == -1, "C07.empty-after.search")
		_, f := st.RangeGet(q)
		vAssert(!f, "C07.empty-after.range")
		cnt := 0
		panicked := vCatch(func() {
			st.ScanFrom(q, true, true, func(k, v []byte) bool { cnt++; return true })
		})
		vAssert(!panicked && cnt == 0, "C07.empty-after.scan")
	} else {
		vAssert(kind == 4, "C07.bad-stream-rejected")
	}
	vObserve("rejected", err != nil)
	vReach("end")
}
