//go:build verif
// +build verif

package trie

// Level oracle for C18: the cumulative per-level counts recomputed through getNode -- the node
// decoder of the *query* path, which the C01/C03 checks validate against the key-list oracle --
// with the harness's own bit counting, instead of through initLevels' own decoder
// (getIthInnerFrom).  (Own file: it calls unexported functions, see the engine's degraded load.)

func vOnesBelow(words []uint64, n int32) int32 {
	c := int32(0)
	for i := int32(0); i < n; i++ {
		if words[i>>6]>>(uint(i)&63)&1 != 0 {
			c++
		}
	}
	return c
}

// vLevelsOracle returns the cumulative (total, inner) pairs level by level, the last pair
// being the totals; nil for an empty trie.
func vLevelsOracle(st *SlimTrie) [][2]int32 {
	ns := st.inner
	if ns.NodeTypeBM == nil {
		return nil
	}
	nNodeBits := int32(len(ns.NodeTypeBM.Words) * 64)
	totalInner := vOnesBelow(ns.NodeTypeBM.Words, nNodeBits)
	total := int32(1)
	if totalInner > 0 {
		total = vOnesBelow(ns.Inners.Words, int32(len(ns.Inners.Words)*64)) + 1
	}
	var out [][2]int32
	cur := int32(0)
	qr := &querySession{}
	for {
		innerBefore := vOnesBelow(ns.NodeTypeBM.Words, cur)
		out = append(out, [2]int32{cur, innerBefore})
		if innerBefore == totalInner {
			break
		}
		id := cur
		for {
			st.getNode(id, qr)
			if qr.isInner != 0 {
				break
			}
			id++
		}
		cur = vOnesBelow(ns.Inners.Words, qr.from) + 1
	}
	out = append(out, [2]int32{total, totalInner})
	return out
}

func init() { vLevelsCheck = checkLevelsOracle }

func checkLevelsOracle(c *vT, s *Stat) {
	want := vLevelsOracle(c.st)
	if want == nil {
		return
	}
	ok := len(s.Levels) == len(want)
	for i := 0; ok && i < len(want); i++ {
		l := s.Levels[i]
		ok = l.Total == want[i][0] && l.Inner == want[i][1] && l.Leaf == want[i][0]-want[i][1]
	}
	vAssert(ok, "C18.levels-match-node-decoder")
}
