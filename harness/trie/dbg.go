//go:build verif
// +build verif

package trie

import (
	"github.com/openacid/low/bitmap"
	"github.com/openacid/low/bmtree"
	"github.com/openacid/low/sigbits"
	"github.com/openacid/slim/encode"
)

func init() {
	vRegister("dbg_build", H_dbg_build)
	vRegister("dbg_funcs", H_dbg_funcs)
}

func H_dbg_funcs() {
	vObserve("mask5", bitmap.Mask[5])
	vObserve("mask64", bitmap.Mask[64])
	vObserve("bit63", bitmap.Bit[63])
	l, b := bitmap.FromStr32("abc", 0, 4)
	vObserve("fs.l", l)
	vObserve("fs.b", b)
	l, b = bitmap.FromStr32("abc", 4, 8)
	vObserve("fs2.l", l)
	vObserve("fs2.b", b)
	vObserve("pathof", bmtree.PathOf("abc", 4, 4))
	vObserve("pathof8", bmtree.PathOf("abc", 8, 8))
	vObserve("pathofend", bmtree.PathOf("abc", 24, 4))
	vObserve("p2i", bmtree.PathToIndex(17, bmtree.PathOf("abc", 4, 4)))
	vObserve("p2i257", bmtree.PathToIndex(257, bmtree.PathOf("abc", 8, 8)))
	vObserve("plen", bmtree.PathLen(bmtree.PathOf("abc", 4, 4)))
	ds := sigbits.FirstDiffBits([]string{"abc", "abcd", "abd", "b"})
	for _, d := range ds {
		vObserve("fd", d)
	}
	sb := sigbits.New([]string{"abc", "abcd", "abd", "b"})
	mn, cnts := sb.CountPrefixes(0, 4, 24)
	vObserve("min", mn)
	for _, c := range cnts {
		vObserve("cnt", c)
	}
	r, bit := bitmap.Rank64([]uint64{0xf0f0, 0xff}, []int32{0, 8}, 70)
	vObserve("rank", r)
	vObserve("rbit", bit)
	vReach("end")
}

func H_dbg_build() {
	keys := []string{"abc", "abcd", "abd", "abde", "bc", "bcd", "bcde", "cde"}
	vals := []uint16{1, 2, 3, 4, 5, 6, 7, 8}
	opt := vOptCase(vParam("opt"))
	st, err := NewSlimTrie(encode.U16{}, keys, vals, opt)
	vAssert(err == nil, "build-ok")
	for i, k := range keys {
		v, found := st.Get(k)
		vAssert(found, "get.found")
		vAssert(found && v.(uint16) == vals[i], "get.value")
	}
	q := vString("q", vParam("lq"))
	v, found := st.Get(q)
	vObserve("found", found)
	if found {
		vObserve("v", v.(uint16))
	}
	vReach("end")
}
