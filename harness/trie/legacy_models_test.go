//go:build verif
// +build verif

package trie

// Validation of the two legacy writer models (assumption A-LW) against every archived
// fixture under trie/testdata: run natively by `vcheck selftest` (part of setup_cmd).

import (
	"bytes"
	"fmt"
	"io/ioutil"
	"reflect"
	"strings"
	"testing"

	proto "github.com/golang/protobuf/proto"
	"github.com/openacid/low/pbcmpl"
	"github.com/openacid/low/vers"
	"github.com/openacid/slim/array"
	"github.com/openacid/slim/encode"
	"github.com/openacid/testkeys"
)

func vTrimZero(ws []uint64) []uint64 {
	for len(ws) > 0 && ws[len(ws)-1] == 0 {
		ws = ws[:len(ws)-1]
	}
	return ws
}

func vSameIndex(a, b *array.Array32) error {
	if a.Cnt != b.Cnt {
		return fmt.Errorf("Cnt %d != %d", a.Cnt, b.Cnt)
	}
	wa, wb := vTrimZero(a.Bitmaps), vTrimZero(b.Bitmaps)
	if !reflect.DeepEqual(wa, wb) && (len(wa) != 0 || len(wb) != 0) {
		return fmt.Errorf("Bitmaps differ")
	}
	for i := range wa {
		if a.Offsets[i] != b.Offsets[i] {
			return fmt.Errorf("Offsets[%d] %d != %d", i, a.Offsets[i], b.Offsets[i])
		}
	}
	return nil
}

func TestVerifLegacyModels(t *testing.T) {
	finfos, err := ioutil.ReadDir("testdata/")
	if err != nil {
		t.Fatal(err)
	}
	nOld, nNew := 0, 0
	for _, typ := range testkeys.AssetNames() {
		prf := "slimtrie-data-" + typ + "-"
		var keys []string
		for _, fi := range finfos {
			fn := fi.Name()
			if !strings.HasPrefix(fn, prf) {
				continue
			}
			parts := strings.Split(fn, "-")
			ver := parts[len(parts)-1]
			if keys == nil {
				keys = testkeys.Load(typ)
			}
			buf, err := ioutil.ReadFile("testdata/" + fn)
			if err != nil {
				t.Fatal(err)
			}
			if vers.Check(ver, ">=0.5.10") {
				// model G.2 composed with the real converters is the identity on the raw message
				raw := &Slim{}
				if _, _, err := pbcmpl.Unmarshal(bytes.NewReader(buf), raw); err != nil {
					t.Fatalf("%s: %v", fn, err)
				}
				st := &SlimTrie{inner: proto.Clone(raw).(*Slim), encoder: encode.I32{}}
				before000512InnerPrefixTobitstr(st)
				before000512FixLeafSize(st)
				vTo0510(st.inner)
				if !proto.Equal(raw, st.inner) {
					t.Errorf("%s: writer model G.2 does not reproduce the archived message", fn)
				}
				nNew++
				continue
			}
			r := bytes.NewReader(buf)
			ch, stp, lv := &array.Array32{}, &array.Array32{}, &array.Array32{}
			for _, a := range []*array.Array32{ch, stp, lv} {
				if _, _, err := pbcmpl.Unmarshal(r, a); err != nil {
					t.Fatalf("%s: %v", fn, err)
				}
			}
			variant := 0
			if ch.Flags&array.ArrayFlagIsBitmap != 0 {
				variant |= 1
			}
			vals := make([]int32, len(keys))
			for i := range vals {
				vals[i] = int32(i)
			}
			matched := ""
			var lastErr error
			for _, leafSteps := range []bool{false, true} {
				m := vLegacyBuild(keys, leafSteps)
				hi := make([]uint16, len(m.childFirst))
				for i, f := range m.childFirst {
					hi[i] = uint16(f)
				}
				elts := make([]int32, len(m.leafKey))
				for i, k := range m.leafKey {
					elts[i] = vals[k]
				}
				mch, mst, mlv := vLegacyArrays(m, variant, hi, elts, encode.I32{})
				err := vSameIndex(ch, mch)
				if err == nil {
					err = vSameIndex(stp, mst)
				}
				if err == nil {
					err = vSameIndex(lv, mlv)
				}
				if err == nil && !bytes.Equal(stp.Elts, mst.Elts) {
					err = fmt.Errorf("step values differ")
				}
				if err == nil && !bytes.Equal(lv.Elts, mlv.Elts) {
					err = fmt.Errorf("leaf bytes differ")
				}
				if err == nil {
					if variant&1 == 0 {
						// u32 children: low half = bitmap; the high half is compared when it fits 16 bits
						if len(ch.Elts) != len(mch.Elts) {
							err = fmt.Errorf("children elts length")
						}
						for i := 0; err == nil && i+3 < len(ch.Elts); i += 4 {
							if ch.Elts[i] != mch.Elts[i] || ch.Elts[i+1] != mch.Elts[i+1] {
								err = fmt.Errorf("child bitmap %d differs", i/4)
							}
							if m.childFirst[i/4] < 65536 && (ch.Elts[i+2] != mch.Elts[i+2] || ch.Elts[i+3] != mch.Elts[i+3]) {
								err = fmt.Errorf("first child id %d differs", i/4)
							}
						}
					} else if ch.Cnt > 0 || mch.Cnt > 0 {
						// (the empty trie carries no elements; the loader reads none)
						if ch.EltWidth != 16 || ch.BMElts == nil || !reflect.DeepEqual(vTrimZero(ch.BMElts.Words), vTrimZero(mch.BMElts.Words)) {
							err = fmt.Errorf("16-bit children bitmaps differ")
						}
					}
				}
				if err == nil {
					matched = fmt.Sprintf("leafSteps=%v", leafSteps)
					break
				}
				lastErr = err
			}
			if matched == "" {
				t.Errorf("%s: writer model G.1 does not reproduce the archived arrays: %v", fn, lastErr)
			}
			nOld++
		}
	}
	fmt.Printf("VLEGACY validated pre-0.5.10=%d 0.5.10=%d\n", nOld, nNew)
	if nOld < 70 || nNew < 27 {
		t.Errorf("expected 70 + 27 fixtures, saw %d + %d", nOld, nNew)
	}
}
