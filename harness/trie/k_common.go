//go:build verif
// +build verif

package trie

// helpers shared by the L1 lemma harnesses (no reference to unexported functions of the package).

import (
	"github.com/openacid/slim/encode"
)

func vU16Encoder() encode.Encoder { return encode.U16{} }

// vBits extracts bits [from, from+n) (n <= 32) of a word slice as a number (spec, by bit loop).
func vBitsOf(words []uint64, from, n int32) uint64 {
	r := uint64(0)
	for k := int32(0); k < n; k++ {
		i := from + k
		bit := (words[i>>6] >> uint(i&63)) & 1
		r |= bit << uint(k)
	}
	return r
}
