//go:build verif
// +build verif

package trie

import (
	"github.com/openacid/slim/encode"
)

// Whole-API harnesses.  One harness body serves L2 (fully symbolic tiny key sets) and
// L3 (concrete skeleton key sets with symbolic holes); the property block to run is
// selected by the enumerated parameter "check".

func init() {
	vRegister("l2_api", H_l2_api)
	vRegister("l3_api", H_l3_api)
}

// value kinds (parameter "enc")
const (
	vEncNil = 0 // values == nil
	vEncU16 = 1
	vEncStr = 2 // String16, variable width
	vEncI64 = 3
	vEncI32 = 4
	vEncI16 = 5
	vEncI8  = 6
)

type vT struct {
	n    int
	keys []string
	enc  int
	u16  []uint16
	str  []string
	i64  []int64
	i32  []int32
	i16  []int16
	i8   []int8
	ret  []bool
	optc int
	st   *SlimTrie
	err  error
}

func (c *vT) encoder() encode.Encoder {
	switch c.enc {
	case vEncStr:
		return encode.String16{}
	case vEncI64:
		return encode.I64{}
	case vEncI32:
		return encode.I32{}
	case vEncI16:
		return encode.I16{}
	case vEncI8:
		return encode.I8{}
	}
	return encode.U16{}
}

func (c *vT) values() interface{} {
	switch c.enc {
	case vEncNil:
		return nil
	case vEncStr:
		return c.str
	case vEncI64:
		return c.i64
	case vEncI32:
		return c.i32
	case vEncI16:
		return c.i16
	case vEncI8:
		return c.i8
	}
	return c.u16
}

// symValues creates n symbolic values of the selected kind.
func (c *vT) symValues() {
	n := c.n
	switch c.enc {
	case vEncU16:
		c.u16 = make([]uint16, n)
		for i := range c.u16 {
			c.u16[i] = vU16("v")
		}
	case vEncStr:
		c.str = make([]string, n)
		for i := range c.str {
			c.str[i] = vString("v", vChoice(2)) // lengths 0..1: variable width incl. empty
		}
	case vEncI64:
		c.i64 = make([]int64, n)
		for i := range c.i64 {
			c.i64[i] = vI64("v")
		}
	case vEncI32:
		c.i32 = make([]int32, n)
		for i := range c.i32 {
			c.i32[i] = vI32("v")
		}
	case vEncI16:
		c.i16 = make([]int16, n)
		for i := range c.i16 {
			c.i16[i] = vI16("v")
		}
	case vEncI8:
		c.i8 = make([]int8, n)
		for i := range c.i8 {
			c.i8[i] = vI8("v")
		}
	}
}

// sameVal: do keys i and j carry equal encoded values?
func (c *vT) sameVal(i, j int) bool {
	switch c.enc {
	case vEncNil:
		return true
	case vEncStr:
		return vStrEq(c.str[i], c.str[j])
	case vEncI64:
		return c.i64[i] == c.i64[j]
	case vEncI32:
		return c.i32[i] == c.i32[j]
	case vEncI16:
		return c.i16[i] == c.i16[j]
	case vEncI8:
		return c.i8[i] == c.i8[j]
	}
	return c.u16[i] == c.u16[j]
}

// valEq: is the value returned by a lookup the value supplied for key i?
func (c *vT) valEq(got interface{}, i int) bool {
	if c.enc == vEncNil {
		return got == nil
	}
	if got == nil {
		return false
	}
	switch c.enc {
	case vEncStr:
		s, ok := got.(string)
		return ok && vStrEq(s, c.str[i])
	case vEncI64:
		x, ok := got.(int64)
		return ok && x == c.i64[i]
	case vEncI32:
		x, ok := got.(int32)
		return ok && x == c.i32[i]
	case vEncI16:
		x, ok := got.(int16)
		return ok && x == c.i16[i]
	case vEncI8:
		x, ok := got.(int8)
		return ok && x == c.i8[i]
	}
	x, ok := got.(uint16)
	return ok && x == c.u16[i]
}

// zeroWidth: with a zero-width encoding slim stores no leaves and returns nil values.
func (c *vT) computeRetained() {
	dedup := vOptDedup(c.optc)
	c.ret = make([]bool, c.n)
	for i := 0; i < c.n; i++ {
		if i == 0 || !dedup || c.enc == vEncNil {
			c.ret[i] = true
		} else {
			c.ret[i] = vNot(c.sameVal(i, i-1))
		}
	}
}

func (c *vT) build() {
	opt := vOptCase(c.optc)
	c.st, c.err = NewSlimTrie(c.encoder(), c.keys, c.values(), opt)
	vAssert(c.err == nil, "build-ok")
	if c.err != nil {
		vAssume(false)
	}
	c.computeRetained()
}

// ---------- oracles (linear scans over the input lists; fork-free) ----------

// exists retained i with key == q
func (c *vT) oHas(q string) bool {
	r := false
	for i := 0; i < c.n; i++ {
		r = vOr(r, vAnd(c.ret[i], vStrEq(c.keys[i], q)))
	}
	return r
}

// vQ holds the oracle facts about one query string, computed in O(n) with prefix/suffix
// accumulators (the key list is ascending): predLE[j] = key j is the greatest retained
// key <= q, predLT[j] = ... < q, succ[j] = key j is the smallest retained key > q.
type vQ struct {
	eq, predLE, predLT, succ   []bool
	has, anyLE, anyLT, anySucc bool
}

func (c *vT) oracle(q string) *vQ {
	n := c.n
	o := &vQ{eq: make([]bool, n), predLE: make([]bool, n), predLT: make([]bool, n), succ: make([]bool, n)}
	le := make([]bool, n)
	lt := make([]bool, n)
	gt := make([]bool, n)
	for j := 0; j < n; j++ {
		lt[j] = vAnd(c.ret[j], vStrLt(c.keys[j], q))
		gt[j] = vAnd(c.ret[j], vStrLt(q, c.keys[j]))
		o.eq[j] = vAnd(c.ret[j], vStrEq(c.keys[j], q))
		le[j] = vOr(lt[j], o.eq[j])
		o.has = vOr(o.has, o.eq[j])
	}
	noneLE, noneLT := true, true
	for j := n - 1; j >= 0; j-- {
		o.predLE[j] = vAnd(le[j], noneLE)
		o.predLT[j] = vAnd(lt[j], noneLT)
		noneLE = vAnd(noneLE, vNot(le[j]))
		noneLT = vAnd(noneLT, vNot(lt[j]))
	}
	o.anyLE, o.anyLT = vNot(noneLE), vNot(noneLT)
	noneGT := true
	for j := 0; j < n; j++ {
		o.succ[j] = vAnd(gt[j], noneGT)
		noneGT = vAnd(noneGT, vNot(gt[j]))
	}
	o.anySucc = vNot(noneGT)
	return o
}

// ---------- property blocks ----------

// C01: every retained key is found with its own value.
func (c *vT) checkC01() {
	okF, okV, okI := true, true, true
	for i := 0; i < c.n; i++ {
		v, found := c.st.Get(c.keys[i])
		id := c.st.GetID(c.keys[i])
		okF = vAnd(okF, vImplies(c.ret[i], found))
		okV = vAnd(okV, vImplies(c.ret[i], vAnd(found, c.valEq(v, i))))
		okI = vAnd(okI, vImplies(c.ret[i], id >= 0))
	}
	vAssert(okF, "C01.get.found")
	vAssert(okV, "C01.get.value")
	vAssert(okI, "C01.id")
}

// C02: RangeGet maps every indexed key (retained or not) to its value.
func (c *vT) checkC02() {
	okF, okV := true, true
	for i := 0; i < c.n; i++ {
		v, found := c.st.RangeGet(c.keys[i])
		okF = vAnd(okF, found)
		okV = vAnd(okV, vAnd(found, c.valEq(v, i)))
	}
	vAssert(okF, "C02.range.found")
	vAssert(okV, "C02.range.value")
}

// exact answers for an arbitrary query on a Complete trie (C03).
func (c *vT) checkExact(q string, tag string) {
	o := c.oracle(q)
	v, found := c.st.Get(q)
	id := c.st.GetID(q)
	vAssert(found == o.has, tag+".get.found")
	vAssert((id >= 0) == o.has, tag+".id")
	ok := true
	for i := 0; i < c.n; i++ {
		ok = vAnd(ok, vImplies(vAnd(found, o.eq[i]), c.valEq(v, i)))
	}
	vAssert(ok, tag+".get.value")
	rv, rfound := c.st.RangeGet(q)
	vAssert(rfound == o.anyLE, tag+".range.found")
	ok = true
	for j := 0; j < c.n; j++ {
		ok = vAnd(ok, vImplies(vAnd(rfound, o.predLE[j]), c.valEq(rv, j)))
	}
	vAssert(ok, tag+".range.value")
	if c.enc != vEncNil {
		l, e, r := c.st.Search(q)
		vAssert((l != nil) == o.anyLT, tag+".search.left.nil")
		vAssert((e != nil) == o.has, tag+".search.eq.nil")
		vAssert((r != nil) == o.anySucc, tag+".search.right.nil")
		okL, okE, okR := true, true, true
		for j := 0; j < c.n; j++ {
			okL = vAnd(okL, vImplies(vAnd(l != nil, o.predLT[j]), c.valEq(l, j)))
			okE = vAnd(okE, vImplies(vAnd(e != nil, o.eq[j]), c.valEq(e, j)))
			okR = vAnd(okR, vImplies(vAnd(r != nil, o.succ[j]), c.valEq(r, j)))
		}
		vAssert(okL, tag+".search.left")
		vAssert(okE, tag+".search.eq")
		vAssert(okR, tag+".search.right")
	}
}

// C09: Search on a retained key returns its exact neighbours in every mode.
func (c *vT) checkC09() {
	if c.enc == vEncNil {
		return
	}
	okE, okL, okLn, okR, okRn := true, true, true, true, true
	for i := 0; i < c.n; i++ {
		l, e, r := c.st.Search(c.keys[i])
		ri := c.ret[i]
		okE = vAnd(okE, vImplies(ri, vAnd(e != nil, c.valEq(e, i))))
		// left neighbour: greatest retained j < i
		anyL := false
		for j := 0; j < i; j++ {
			anyL = vOr(anyL, c.ret[j])
			isL := c.ret[j]
			for m := j + 1; m < i; m++ {
				isL = vAnd(isL, vNot(c.ret[m]))
			}
			okL = vAnd(okL, vImplies(vAnd(ri, isL), vAnd(l != nil, c.valEq(l, j))))
		}
		okLn = vAnd(okLn, vImplies(vAnd(ri, vNot(anyL)), l == nil))
		anyR := false
		for j := i + 1; j < c.n; j++ {
			anyR = vOr(anyR, c.ret[j])
			isR := c.ret[j]
			for m := i + 1; m < j; m++ {
				isR = vAnd(isR, vNot(c.ret[m]))
			}
			okR = vAnd(okR, vImplies(vAnd(ri, isR), vAnd(r != nil, c.valEq(r, j))))
		}
		okRn = vAnd(okRn, vImplies(vAnd(ri, vNot(anyR)), r == nil))
	}
	vAssert(okE, "C09.eq")
	vAssert(okL, "C09.left")
	vAssert(okLn, "C09.left.nil")
	vAssert(okR, "C09.right")
	vAssert(okRn, "C09.right.nil")
}

// suppliedVal: got is one of the supplied values
func (c *vT) supplied(got interface{}) bool {
	r := false
	for i := 0; i < c.n; i++ {
		r = vOr(r, c.valEq(got, i))
	}
	return r
}

// C10: totality and mutual consistency for an arbitrary query in any mode.
func (c *vT) checkC10(q string) {
	v, found := c.st.Get(q)
	id := c.st.GetID(q)
	rv, rfound := c.st.RangeGet(q)
	l, e, r := c.st.Search(q)
	vAssert(found == (id >= 0), "C10.get-id-agree")
	if c.enc != vEncNil {
		vAssert(found == (e != nil), "C10.get-search-agree")
		if found && e != nil {
			vAssert(c.sameIface(v, e), "C10.get-search-value")
		}
		if found {
			vAssert(c.supplied(v), "C10.hit-supplied")
		}
		if rfound {
			vAssert(c.supplied(rv), "C10.range-supplied")
		}
		if l != nil {
			vAssert(c.supplied(l), "C10.left-supplied")
		}
		if r != nil {
			vAssert(c.supplied(r), "C10.right-supplied")
		}
	}
	vAssert(vImplies(found, rfound), "C10.range-superset")
	if found && rfound && c.enc != vEncNil {
		vAssert(c.sameIface(v, rv), "C10.range-value")
	}
}

func (c *vT) sameIface(a, b interface{}) bool {
	if a == nil || b == nil {
		return a == nil && b == nil
	}
	switch c.enc {
	case vEncStr:
		return vStrEq(a.(string), b.(string))
	case vEncI64:
		return a.(int64) == b.(int64)
	case vEncI32:
		return a.(int32) == b.(int32)
	case vEncI16:
		return a.(int16) == b.(int16)
	case vEncI8:
		return a.(int8) == b.(int8)
	}
	return a.(uint16) == b.(uint16)
}

// C14: typed getters agree with Get.
func (c *vT) checkC14(q string) {
	v, found := c.st.Get(q)
	switch c.enc {
	case vEncI64:
		x, f := c.st.GetI64(q)
		vAssert(f == found, "C14.found")
		if f && found {
			vAssert(x == v.(int64), "C14.value")
		} else {
			vAssert(x == 0, "C14.zero")
		}
	case vEncI32:
		x, f := c.st.GetI32(q)
		vAssert(f == found, "C14.found")
		if f && found {
			vAssert(x == v.(int32), "C14.value")
		} else {
			vAssert(x == 0, "C14.zero")
		}
	case vEncI16:
		x, f := c.st.GetI16(q)
		vAssert(f == found, "C14.found")
		if f && found {
			vAssert(x == v.(int16), "C14.value")
		} else {
			vAssert(x == 0, "C14.zero")
		}
	case vEncI8:
		x, f := c.st.GetI8(q)
		vAssert(f == found, "C14.found")
		if f && found {
			vAssert(x == v.(int8), "C14.value")
		} else {
			vAssert(x == 0, "C14.zero")
		}
	}
}

// C18: Stat
func (c *vT) checkC18() {
	s := c.st.Stat()
	cnt := 0
	for i := 0; i < c.n; i++ {
		cnt += vB2I(c.ret[i])
	}
	vAssert(int(s.KeyCnt) == cnt, "C18.keycnt")
	vAssert(int(s.LevelCnt) == len(s.Levels), "C18.levelcnt")
	prevT, prevI, prevL := int32(0), int32(0), int32(0)
	for i := 0; i < len(s.Levels); i++ {
		l := s.Levels[i]
		vAssert(l.Total == l.Inner+l.Leaf, "C18.level.sum")
		vAssert(l.Total >= prevT && l.Inner >= prevI && l.Leaf >= prevL, "C18.level.monotone")
		prevT, prevI, prevL = l.Total, l.Inner, l.Leaf
	}
	last := s.Levels[len(s.Levels)-1]
	vAssert(s.NodeCnt == last.Total, "C18.nodecnt")
	vAssert(last.Leaf == s.KeyCnt || c.n == 0, "C18.last.leaf")
	if c.n == 0 {
		vAssert(s.KeyCnt == 0 && s.NodeCnt == 0, "C18.empty")
	}
	if c.n == 1 {
		vAssert(s.KeyCnt == 1 && s.NodeCnt == 1, "C18.single")
	}
	vObserve("keycnt", s.KeyCnt)
	vObserve("nodecnt", s.NodeCnt)
}

func (c *vT) run(check int, lq int) {
	switch check {
	case 1:
		c.checkC01()
	case 2:
		c.checkC02()
	case 3:
		q := vString("q", lq)
		c.checkExact(q, "C03")
	case 9:
		c.checkC09()
	case 10:
		q := vString("q", lq)
		c.checkC10(q)
	case 14:
		q := vString("q", lq)
		c.checkC14(q)
	case 18:
		c.checkC18()
	}
}

// ---------- L2: fully symbolic tiny key sets ----------

func H_l2_api() {
	c := &vT{}
	c.n = vParam("n")
	L := vParam("L")
	c.optc = vParam("opt")
	c.enc = vParam("enc")
	check := vParam("check")
	lq := vParam("lq")
	lens := vLens(vParam("lens"), c.n, L)
	c.keys = vSymKeys(lens, true)
	c.symValues()
	c.build()
	c.run(check, lq)
	vReach("end")
}

// ---------- L3: concrete skeletons ----------

func H_l3_api() {
	c := &vT{}
	c.keys = vSkeleton(vParam("skel"))
	c.n = len(c.keys)
	c.optc = vParam("opt")
	c.enc = vParam("enc")
	check := vParam("check")
	lq := vParam("lq")
	vConcreteValues(c, vParam("runs"))
	c.build()
	c.run(check, lq)
	vReach("end")
}
