//go:build verif
// +build verif

package trie

import (
	"github.com/openacid/slim/encode"
)

// Whole-API harnesses.  One harness body serves L2 (fully symbolic tiny key sets) and
// L3 (concrete skeleton key sets with symbolic holes); the property block to run is
// selected by the enumerated parameter "check".

func init() {
	vRegister("l2_api", H_l2_api)
	vRegister("l3_api", H_l3_api)
}

// value kinds (parameter "enc")
const (
	vEncNil = 0 // values == nil
	vEncU16 = 1
	vEncStr = 2 // String16, variable width
	vEncI64 = 3
	vEncI32 = 4
	vEncI16 = 5
	vEncI8  = 6
	vEncRec = 7 // *encode.TypeEncoder over a struct (reflection-driven codec)
	vEncOpt = 8 // application encoder: uint16, 0 encodes to zero bytes, anything else to 2 bytes LE
)

// vOptU16 is an application-defined encoder whose encodings are either empty or of one
// fixed width: slim stores such values as a fixed-size leaf array with absent elements
// (presence bitmap + rank), a layout none of the stock encoders produces.
type vOptU16 struct{}

func (vOptU16) Encode(d interface{}) []byte {
	v := d.(uint16)
	if v == 0 {
		return []byte{}
	}
	return []byte{byte(v), byte(v >> 8)}
}

func (vOptU16) Decode(b []byte) (int, interface{}) {
	if len(b) == 0 {
		return 0, uint16(0)
	}
	return 2, uint16(b[0]) | uint16(b[1])<<8
}

func (vOptU16) GetSize(d interface{}) int {
	if d.(uint16) == 0 {
		return 0
	}
	return 2
}

func (vOptU16) GetEncodedSize(b []byte) int {
	if len(b) == 0 {
		return 0
	}
	return 2
}

// vRec is a fixed-size record as an application would store it behind a TypeEncoder.
type vRec struct {
	Off uint32
	Len uint16
}

// vLevelsCheck is set by c18_levels.go (kept behind a variable so that this file compiles without it).
var vLevelsCheck func(c *vT, s *Stat)

type vT struct {
	n    int
	keys []string
	enc  int
	u16  []uint16
	str  []string
	i64  []int64
	i32  []int32
	i16  []int16
	i8   []int8
	rec  []vRec
	tenc *encode.TypeEncoder
	ret  []bool
	optc int
	st   *SlimTrie
	err  error
}

func (c *vT) encoder() encode.Encoder {
	switch c.enc {
	case vEncStr:
		return encode.String16{}
	case vEncI64:
		return encode.I64{}
	case vEncI32:
		return encode.I32{}
	case vEncI16:
		return encode.I16{}
	case vEncI8:
		return encode.I8{}
	case vEncRec:
		if c.tenc == nil {
			c.tenc, _ = encode.NewTypeEncoder(vRec{})
		}
		return c.tenc
	case vEncOpt:
		return vOptU16{}
	}
	return encode.U16{}
}

func (c *vT) values() interface{} {
	switch c.enc {
	case vEncNil:
		return nil
	case vEncStr:
		return c.str
	case vEncI64:
		return c.i64
	case vEncI32:
		return c.i32
	case vEncI16:
		return c.i16
	case vEncI8:
		return c.i8
	case vEncRec:
		return c.rec
	}
	return c.u16
}

// symValues creates n symbolic values of the selected kind.
func (c *vT) symValues() {
	n := c.n
	switch c.enc {
	case vEncU16:
		c.u16 = make([]uint16, n)
		for i := range c.u16 {
			c.u16[i] = vU16("v")
		}
	case vEncOpt:
		c.u16 = make([]uint16, n)
		nz := false
		for i := range c.u16 {
			c.u16[i] = vU16("v")
			nz = vOr(nz, c.u16[i] != 0)
		}
		// all-empty encodings are the zero-width case (no leaf array at all, nil values)
		vAssume(nz)
	case vEncStr:
		c.str = make([]string, n)
		for i := range c.str {
			c.str[i] = vString("v", vChoice(1+vParamDef("vl", 1))) // lengths 0..vl (default 1): variable width incl. empty
		}
	case vEncI64:
		c.i64 = make([]int64, n)
		for i := range c.i64 {
			c.i64[i] = vI64("v")
		}
	case vEncI32:
		c.i32 = make([]int32, n)
		for i := range c.i32 {
			c.i32[i] = vI32("v")
		}
	case vEncI16:
		c.i16 = make([]int16, n)
		for i := range c.i16 {
			c.i16[i] = vI16("v")
		}
	case vEncRec:
		c.rec = make([]vRec, n)
		for i := range c.rec {
			c.rec[i] = vRec{Off: vU32("v"), Len: vU16("vl")}
		}
	case vEncI8:
		c.i8 = make([]int8, n)
		for i := range c.i8 {
			c.i8[i] = vI8("v")
		}
	}
}

// sameVal: do keys i and j carry equal encoded values?
func (c *vT) sameVal(i, j int) bool {
	switch c.enc {
	case vEncNil:
		return true
	case vEncStr:
		return vStrEq(c.str[i], c.str[j])
	case vEncI64:
		return c.i64[i] == c.i64[j]
	case vEncI32:
		return c.i32[i] == c.i32[j]
	case vEncI16:
		return c.i16[i] == c.i16[j]
	case vEncI8:
		return c.i8[i] == c.i8[j]
	case vEncRec:
		return vAnd(c.rec[i].Off == c.rec[j].Off, c.rec[i].Len == c.rec[j].Len)
	}
	return c.u16[i] == c.u16[j]
}

// valEq: is the value returned by a lookup the value supplied for key i?
func (c *vT) valEq(got interface{}, i int) bool {
	if c.enc == vEncNil {
		return got == nil
	}
	if got == nil {
		return false
	}
	switch c.enc {
	case vEncStr:
		s, ok := got.(string)
		return ok && vStrEq(s, c.str[i])
	case vEncI64:
		x, ok := got.(int64)
		return ok && x == c.i64[i]
	case vEncI32:
		x, ok := got.(int32)
		return ok && x == c.i32[i]
	case vEncI16:
		x, ok := got.(int16)
		return ok && x == c.i16[i]
	case vEncI8:
		x, ok := got.(int8)
		return ok && x == c.i8[i]
	case vEncRec:
		x, ok := got.(vRec)
		return ok && vAnd(x.Off == c.rec[i].Off, x.Len == c.rec[i].Len)
	}
	x, ok := got.(uint16)
	return ok && x == c.u16[i]
}

// zeroWidth: with a zero-width encoding slim stores no leaves and returns nil values.
func (c *vT) computeRetained() {
	dedup := vOptDedup(c.optc)
	c.ret = make([]bool, c.n)
	for i := 0; i < c.n; i++ {
		if i == 0 || !dedup || c.enc == vEncNil {
			c.ret[i] = true
		} else {
			c.ret[i] = vNot(c.sameVal(i, i-1))
		}
	}
}

func (c *vT) build() {
	opt := vOptCase(c.optc)
	if pre := vParamDef("pre", 0); pre > 0 {
		// an unrelated, diverse trie is built (and dropped) first: what a build produces must not
		// depend on what was built before it
		var err error
		if po := vParamDef("preopt", -1); po >= 0 {
			_, err = NewSlimTrie(encode.U16{}, vSweep(pre), nil, vOptCase(po))
		} else {
			_, err = NewSlimTrie(encode.U16{}, vSweep(pre), nil)
		}
		vAssert(err == nil, "build-ok")
	}
	c.st, c.err = NewSlimTrie(c.encoder(), c.keys, c.values(), opt)
	vAssert(c.err == nil, "build-ok")
	if c.err != nil {
		vAssume(false)
	}
	c.computeRetained()
	// optionally build (and drop) a second, unrelated trie: nothing a later build does may
	// disturb a trie that is still alive (shared scratch memory, pools, caches)
	switch vParamDef("other", 0) {
	case 1:
		_, err := NewSlimTrie(c.encoder(), []string{"pa", "pbc", "pbd", "q"}, nil, opt)
		vAssert(err == nil, "build-ok")
	case 2:
		_, err := NewSlimTrie(encode.U16{}, []string{"\x00\x10", "\x00\x11\x7f", "\x00\x11\x80"}, []uint16{9, 8, 7})
		vAssert(err == nil, "build-ok")
	}
}

// ---------- oracles (linear scans over the input lists; fork-free) ----------

// exists retained i with key == q
func (c *vT) oHas(q string) bool {
	r := false
	for i := 0; i < c.n; i++ {
		r = vOr(r, vAnd(c.ret[i], vStrEq(c.keys[i], q)))
	}
	return r
}

// vQ holds the oracle facts about one query string, computed in O(n) with prefix/suffix
// accumulators (the key list is ascending): predLE[j] = key j is the greatest retained
// key <= q, predLT[j] = ... < q, succ[j] = key j is the smallest retained key > q.
type vQ struct {
	eq, predLE, predLT, succ   []bool
	has, anyLE, anyLT, anySucc bool
}

func (c *vT) oracle(q string) *vQ {
	n := c.n
	o := &vQ{eq: make([]bool, n), predLE: make([]bool, n), predLT: make([]bool, n), succ: make([]bool, n)}
	le := make([]bool, n)
	lt := make([]bool, n)
	gt := make([]bool, n)
	for j := 0; j < n; j++ {
		lt[j] = vAnd(c.ret[j], vStrLt(c.keys[j], q))
		gt[j] = vAnd(c.ret[j], vStrLt(q, c.keys[j]))
		o.eq[j] = vAnd(c.ret[j], vStrEq(c.keys[j], q))
		le[j] = vOr(lt[j], o.eq[j])
		o.has = vOr(o.has, o.eq[j])
	}
	noneLE, noneLT := true, true
	for j := n - 1; j >= 0; j-- {
		o.predLE[j] = vAnd(le[j], noneLE)
		o.predLT[j] = vAnd(lt[j], noneLT)
		noneLE = vAnd(noneLE, vNot(le[j]))
		noneLT = vAnd(noneLT, vNot(lt[j]))
	}
	o.anyLE, o.anyLT = vNot(noneLE), vNot(noneLT)
	noneGT := true
	for j := 0; j < n; j++ {
		o.succ[j] = vAnd(gt[j], noneGT)
		noneGT = vAnd(noneGT, vNot(gt[j]))
	}
	o.anySucc = vNot(noneGT)
	return o
}

// ---------- property blocks ----------

// C01: every retained key is found with its own value.
func (c *vT) checkC01() {
	okF, okV, okI := true, true, true
	for i := 0; i < c.n; i++ {
		v, found := c.st.Get(c.keys[i])
		id := c.st.GetID(c.keys[i])
		okF = vAnd(okF, vImplies(c.ret[i], found))
		okV = vAnd(okV, vImplies(c.ret[i], vAnd(found, c.valEq(v, i))))
		okI = vAnd(okI, vImplies(c.ret[i], id >= 0))
	}
	vAssert(okF, "C01.get.found")
	vAssert(okV, "C01.get.value")
	vAssert(okI, "C01.id")
}

// C02: RangeGet maps every indexed key (retained or not) to its value.
func (c *vT) checkC02() {
	okF, okV := true, true
	for i := 0; i < c.n; i++ {
		v, found := c.st.RangeGet(c.keys[i])
		okF = vAnd(okF, found)
		okV = vAnd(okV, vAnd(found, c.valEq(v, i)))
	}
	vAssert(okF, "C02.range.found")
	vAssert(okV, "C02.range.value")
}

// exact answers for an arbitrary query on a Complete trie (C03).
func (c *vT) checkExact(q string, tag string) {
	o := c.oracle(q)
	v, found := c.st.Get(q)
	id := c.st.GetID(q)
	vAssert(found == o.has, tag+".get.found")
	vAssert((id >= 0) == o.has, tag+".id")
	ok := true
	for i := 0; i < c.n; i++ {
		ok = vAnd(ok, vImplies(vAnd(found, o.eq[i]), c.valEq(v, i)))
	}
	vAssert(ok, tag+".get.value")
	rv, rfound := c.st.RangeGet(q)
	vAssert(rfound == o.anyLE, tag+".range.found")
	ok = true
	for j := 0; j < c.n; j++ {
		ok = vAnd(ok, vImplies(vAnd(rfound, o.predLE[j]), c.valEq(rv, j)))
	}
	vAssert(ok, tag+".range.value")
	if c.enc != vEncNil {
		l, e, r := c.st.Search(q)
		vAssert((l != nil) == o.anyLT, tag+".search.left.nil")
		vAssert((e != nil) == o.has, tag+".search.eq.nil")
		vAssert((r != nil) == o.anySucc, tag+".search.right.nil")
		okL, okE, okR := true, true, true
		for j := 0; j < c.n; j++ {
			okL = vAnd(okL, vImplies(vAnd(l != nil, o.predLT[j]), c.valEq(l, j)))
			okE = vAnd(okE, vImplies(vAnd(e != nil, o.eq[j]), c.valEq(e, j)))
			okR = vAnd(okR, vImplies(vAnd(r != nil, o.succ[j]), c.valEq(r, j)))
		}
		vAssert(okL, tag+".search.left")
		vAssert(okE, tag+".search.eq")
		vAssert(okR, tag+".search.right")
	}
}

// C09: Search on a retained key returns its exact neighbours in every mode.
func (c *vT) checkC09() {
	if c.enc == vEncNil {
		return
	}
	okE, okL, okLn, okR, okRn := true, true, true, true, true
	if c.n > 8 {
		// skeletons: values (hence the retained flags) are concrete; linear scan
		prev := -1
		for i := 0; i < c.n; i++ {
			if !c.ret[i] {
				continue
			}
			next := -1
			for j := i + 1; j < c.n; j++ {
				if c.ret[j] {
					next = j
					break
				}
			}
			l, e, r := c.st.Search(c.keys[i])
			okE = vAnd(okE, vAnd(e != nil, c.valEq(e, i)))
			if prev >= 0 {
				okL = vAnd(okL, vAnd(l != nil, c.valEq(l, prev)))
			} else {
				okLn = vAnd(okLn, l == nil)
			}
			if next >= 0 {
				okR = vAnd(okR, vAnd(r != nil, c.valEq(r, next)))
			} else {
				okRn = vAnd(okRn, r == nil)
			}
			prev = i
		}
		vAssert(okE, "C09.eq")
		vAssert(okL, "C09.left")
		vAssert(okLn, "C09.left.nil")
		vAssert(okR, "C09.right")
		vAssert(okRn, "C09.right.nil")
		return
	}
	for i := 0; i < c.n; i++ {
		l, e, r := c.st.Search(c.keys[i])
		ri := c.ret[i]
		okE = vAnd(okE, vImplies(ri, vAnd(e != nil, c.valEq(e, i))))
		// left neighbour: greatest retained j < i
		anyL := false
		for j := 0; j < i; j++ {
			anyL = vOr(anyL, c.ret[j])
			isL := c.ret[j]
			for m := j + 1; m < i; m++ {
				isL = vAnd(isL, vNot(c.ret[m]))
			}
			okL = vAnd(okL, vImplies(vAnd(ri, isL), vAnd(l != nil, c.valEq(l, j))))
		}
		okLn = vAnd(okLn, vImplies(vAnd(ri, vNot(anyL)), l == nil))
		anyR := false
		for j := i + 1; j < c.n; j++ {
			anyR = vOr(anyR, c.ret[j])
			isR := c.ret[j]
			for m := i + 1; m < j; m++ {
				isR = vAnd(isR, vNot(c.ret[m]))
			}
			okR = vAnd(okR, vImplies(vAnd(ri, isR), vAnd(r != nil, c.valEq(r, j))))
		}
		okRn = vAnd(okRn, vImplies(vAnd(ri, vNot(anyR)), r == nil))
	}
	vAssert(okE, "C09.eq")
	vAssert(okL, "C09.left")
	vAssert(okLn, "C09.left.nil")
	vAssert(okR, "C09.right")
	vAssert(okRn, "C09.right.nil")
}

// suppliedVal: got is one of the supplied values
func (c *vT) supplied(got interface{}) bool {
	r := false
	for i := 0; i < c.n; i++ {
		r = vOr(r, c.valEq(got, i))
	}
	return r
}

// C10: totality and mutual consistency for an arbitrary query in any mode.
func (c *vT) checkC10(q string) {
	v, found := c.st.Get(q)
	id := c.st.GetID(q)
	rv, rfound := c.st.RangeGet(q)
	l, e, r := c.st.Search(q)
	vAssert(found == (id >= 0), "C10.get-id-agree")
	if c.enc != vEncNil {
		vAssert(found == (e != nil), "C10.get-search-agree")
		if found && e != nil {
			vAssert(c.sameIface(v, e), "C10.get-search-value")
		}
		if found {
			vAssert(c.supplied(v), "C10.hit-supplied")
		}
		if rfound {
			vAssert(c.supplied(rv), "C10.range-supplied")
		}
		if l != nil {
			vAssert(c.supplied(l), "C10.left-supplied")
		}
		if r != nil {
			vAssert(c.supplied(r), "C10.right-supplied")
		}
	}
	vAssert(vImplies(found, rfound), "C10.range-superset")
	if found && rfound && c.enc != vEncNil {
		vAssert(c.sameIface(v, rv), "C10.range-value")
	}
}

func (c *vT) sameIface(a, b interface{}) bool {
	if a == nil || b == nil {
		return a == nil && b == nil
	}
	switch c.enc {
	case vEncStr:
		return vStrEq(a.(string), b.(string))
	case vEncI64:
		return a.(int64) == b.(int64)
	case vEncI32:
		return a.(int32) == b.(int32)
	case vEncI16:
		return a.(int16) == b.(int16)
	case vEncI8:
		return a.(int8) == b.(int8)
	case vEncRec:
		x, y := a.(vRec), b.(vRec)
		return vAnd(x.Off == y.Off, x.Len == y.Len)
	}
	return a.(uint16) == b.(uint16)
}

// C14: typed getters agree with Get.
func (c *vT) checkC14(q string) {
	v, found := c.st.Get(q)
	switch c.enc {
	case vEncI64:
		x, f := c.st.GetI64(q)
		vAssert(f == found, "C14.found")
		if f && found {
			vAssert(x == v.(int64), "C14.value")
		} else {
			vAssert(x == 0, "C14.zero")
		}
	case vEncI32:
		x, f := c.st.GetI32(q)
		vAssert(f == found, "C14.found")
		if f && found {
			vAssert(x == v.(int32), "C14.value")
		} else {
			vAssert(x == 0, "C14.zero")
		}
	case vEncI16:
		x, f := c.st.GetI16(q)
		vAssert(f == found, "C14.found")
		if f && found {
			vAssert(x == v.(int16), "C14.value")
		} else {
			vAssert(x == 0, "C14.zero")
		}
	case vEncI8:
		x, f := c.st.GetI8(q)
		vAssert(f == found, "C14.found")
		if f && found {
			vAssert(x == v.(int8), "C14.value")
		} else {
			vAssert(x == 0, "C14.zero")
		}
	}
}

// C18: Stat
func (c *vT) checkC18() {
	s := c.st.Stat()
	cnt := 0
	for i := 0; i < c.n; i++ {
		cnt += vB2I(c.ret[i])
	}
	vAssert(int(s.KeyCnt) == cnt, "C18.keycnt")
	vAssert(int(s.LevelCnt) == len(s.Levels), "C18.levelcnt")
	prevT, prevI, prevL := int32(0), int32(0), int32(0)
	for i := 0; i < len(s.Levels); i++ {
		l := s.Levels[i]
		vAssert(l.Total == l.Inner+l.Leaf, "C18.level.sum")
		vAssert(l.Total >= prevT && l.Inner >= prevI && l.Leaf >= prevL, "C18.level.monotone")
		prevT, prevI, prevL = l.Total, l.Inner, l.Leaf
	}
	last := s.Levels[len(s.Levels)-1]
	vAssert(s.NodeCnt == last.Total, "C18.nodecnt")
	vAssert(last.Leaf == s.KeyCnt || c.n == 0, "C18.last.leaf")
	if c.n == 0 {
		vAssert(s.KeyCnt == 0 && s.NodeCnt == 0, "C18.empty")
	}
	if c.n == 1 {
		vAssert(s.KeyCnt == 1 && s.NodeCnt == 1, "C18.single")
	}
	if vLevelsCheck != nil && vParamDef("skel", -1) >= 0 {
		// concrete key sets: the level table against the one recomputed through the query path's
		// node decoder (c18_levels.go)
		vLevelsCheck(c, s)
	}
	vObserve("keycnt", s.KeyCnt)
	vObserve("nodecnt", s.NodeCnt)
}

// encOf: the encoded bytes of the value supplied for key i (real encoder; decided by C15).
func (c *vT) encOf(i int) []byte {
	switch c.enc {
	case vEncStr:
		return c.encoder().Encode(c.str[i])
	case vEncI64:
		return c.encoder().Encode(c.i64[i])
	case vEncI32:
		return c.encoder().Encode(c.i32[i])
	case vEncI16:
		return c.encoder().Encode(c.i16[i])
	case vEncI8:
		return c.encoder().Encode(c.i8[i])
	case vEncU16, vEncOpt:
		return c.encoder().Encode(c.u16[i])
	}
	return nil
}

// C04: scans yield exactly the retained entries in range, in order, once.
// api 0: NewIter; 1: ScanFrom with the callback returning false after `stop` calls;
// 2: ScanFromTo.
func (c *vT) checkC04(api int, ls, le int, stop int) {
	start := vString("s", ls)
	inclS := vBool("inclS")
	withValue := vBool("withValue")
	end := ""
	inclE := true
	if api == 2 {
		end = vString("e", le)
		inclE = vBool("inclE")
	}
	// in-range flags and ranks (fork-free)
	n := c.n
	inR := make([]bool, n)
	rank := make([]int, n)
	total := 0
	encs := make([][]byte, n)
	for j := 0; j < n; j++ {
		geS := vOr(vStrLt(start, c.keys[j]), vAnd(inclS, vStrEq(start, c.keys[j])))
		r := vAnd(c.ret[j], geS)
		if api == 2 {
			leE := vOr(vStrLt(c.keys[j], end), vAnd(inclE, vStrEq(end, c.keys[j])))
			r = vAnd(r, leE)
		}
		inR[j] = r
		rank[j] = total
		total += vB2I(r)
		encs[j] = c.encOf(j)
	}
	checkYield := func(t int, k, v []byte) {
		ks := string(k)
		ok := false
		for j := 0; j < n; j++ {
			hit := vAnd(inR[j], vAnd(rank[j] == t, vStrEq(ks, c.keys[j])))
			if c.enc == vEncNil {
				hit = vAnd(hit, v == nil)
			} else {
				hit = vAnd(hit, vOr(vAnd(vNot(withValue), v == nil), vAnd(withValue, vAnd(v != nil, vBytesEq(v, encs[j])))))
			}
			ok = vOr(ok, hit)
		}
		vAssert(ok, "C04.yield")
	}
	count := 0
	switch api {
	case 0:
		nxt := c.st.NewIter(start, inclS, withValue)
		var first []string
		for t := 0; t < n+1; t++ {
			k, v := nxt()
			if k == nil {
				vAssert(v == nil, "C04.exhausted.value")
				break
			}
			checkYield(count, k, v)
			first = append(first, string(k))
			count++
		}
		vAssert(count <= n, "C04.no-extra")
		vAssert(count == total, "C04.count")
		// exhaustion is reported on every later call
		k2, v2 := nxt()
		k3, v3 := nxt()
		vAssert(k2 == nil && v2 == nil && k3 == nil && v3 == nil, "C04.exhausted")
		if vParamDef("again", 0) == 1 {
			// scans started after an iterator was polled past its end still yield exactly the
			// entries in range: the same scan again, advanced in turn with a scan over the whole trie
			a := c.st.NewIter(start, inclS, withValue)
			b := c.st.NewIter("", true, false)
			okA, okB := true, true
			nb := 0
			for t := 0; t < n+1; t++ {
				ka, _ := a()
				kb, _ := b()
				if t < len(first) {
					okA = vAnd(okA, ka != nil && vStrEq(string(ka), first[t]))
				} else {
					okA = vAnd(okA, ka == nil)
				}
				if kb != nil {
					nb++
				}
			}
			for j := 0; j < n; j++ {
				nb -= vB2I(c.ret[j])
			}
			okB = nb == 0
			vAssert(okA, "C04.again.same")
			vAssert(okB, "C04.again.whole")
		}
	case 1:
		c.st.ScanFrom(start, inclS, withValue, func(k, v []byte) bool {
			checkYield(count, k, v)
			count++
			return count <= stop
		})
		want := total
		lim := stop + 1
		vAssert(count == vIte(want < lim, want, lim), "C04.count")
	case 2:
		c.st.ScanFromTo(start, inclS, end, inclE, withValue, func(k, v []byte) bool {
			checkYield(count, k, v)
			count++
			return true
		})
		vAssert(count == total, "C04.count")
	}
	vObserve("count", count)
}

// C04 refusal clause: a trie that does not store complete keys must refuse (panic)
// or still yield exactly the right sequence; yielding a wrong key is the violation.
func (c *vT) checkC04Refuse(ls int) {
	start := vString("s", ls)
	n := c.n
	inR := make([]bool, n)
	rank := make([]int, n)
	total := 0
	for j := 0; j < n; j++ {
		r := vAnd(c.ret[j], vNot(vStrLt(c.keys[j], start)))
		inR[j] = r
		rank[j] = total
		total += vB2I(r)
	}
	count := 0
	good := true
	panicked := vCatch(func() {
		nxt := c.st.NewIter(start, true, false)
		for t := 0; t < n+1; t++ {
			k, _ := nxt()
			if k == nil {
				break
			}
			ks := string(k)
			ok := false
			for j := 0; j < n; j++ {
				ok = vOr(ok, vAnd(inR[j], vAnd(rank[j] == count, vStrEq(ks, c.keys[j]))))
			}
			good = vAnd(good, ok)
			count++
		}
	})
	if !panicked {
		vAssert(vAnd(good, count == total), "C04.refuse-or-correct")
	}
	vObserve("panicked", panicked)
}

// C13: storing more key information only removes false positives.
// Builds the four information levels for the same keys/values and dedup flag.
func (c *vT) checkC13(q string) {
	dedupBit := 0
	if vOptDedup(c.optc) {
		dedupBit = 1
	}
	// information levels: none, inner, leaf, complete
	lv := []int{dedupBit, dedupBit | 2, dedupBit | 4, dedupBit | 8}
	sts := make([]*SlimTrie, 4)
	for i, o := range lv {
		st, err := NewSlimTrie(c.encoder(), c.keys, c.values(), vOptCase(o))
		vAssert(err == nil, "build-ok")
		if err != nil {
			vAssume(false)
		}
		sts[i] = st
	}
	if vParamDef("other", 0) > 0 {
		// an unrelated trie that stores prefixes is built while the four are alive
		_, err := NewSlimTrie(encode.U16{}, []string{"\x00\x10zz", "\x00\x11\x7fyy", "\x00\x11\x80xx", "qrst"}, []uint16{9, 8, 7, 6}, Opt{Complete: Bool(true)})
		vAssert(err == nil, "build-ok")
	}
	found := make([]bool, 4)
	vals := make([]interface{}, 4)
	for i := range sts {
		vals[i], found[i] = sts[i].Get(q)
	}
	// order by stored information: none < inner < complete, none < leaf < complete
	pairs := [][2]int{{1, 0}, {2, 0}, {3, 1}, {3, 2}, {3, 0}}
	for _, p := range pairs {
		more, less := p[0], p[1]
		if found[more] {
			vAssert(found[less], "C13.monotone")
			if found[less] && c.enc != vEncNil {
				vAssert(c.sameIface(vals[more], vals[less]), "C13.same-value")
			}
		}
	}
	o := c.oracle(q)
	vAssert(found[3] == o.has, "C13.complete-exact")
	// every mode gives identical answers for retained keys
	okR := true
	for m := 0; m < 4; m++ {
		if !found[m] {
			okR = vAnd(okR, vNot(o.has))
		} else {
			for j := 0; j < c.n; j++ {
				okR = vAnd(okR, vImplies(o.eq[j], c.valEq(vals[m], j)))
			}
		}
	}
	vAssert(okR, "C13.retained-equal")
}

// C19: String() renders every node once; leaf lines carry the retained values in key order.
// Values must be concrete (formatting is evaluated natively).
func (c *vT) checkC19() {
	var out string
	panicked := vCatch(func() { out = c.st.String() })
	vAssert(!panicked, "C19.no-panic")
	if panicked {
		return
	}
	s := c.st.Stat()
	lines := 0
	if len(out) > 0 {
		lines = 1
		for i := 0; i < len(out); i++ {
			if out[i] == '\n' {
				lines++
			}
		}
	}
	vAssert(int32(lines) == s.NodeCnt, "C19.line-per-node")
	// every line names the node it renders as "#<id>": each id 0..NodeCnt-1 exactly once
	seen := make([]bool, int(s.NodeCnt))
	okIDs := true
	// leaf lines: "...=<value>" at the end of a line
	var got []int
	i := 0
	for i < len(out) {
		j := i
		for j < len(out) && out[j] != '\n' {
			j++
		}
		line := out[i:j]
		h := 0
		for h < len(line) && line[h] != '#' {
			h++
		}
		if h < len(line) {
			id, nd := 0, 0
			for d := h + 1; d < len(line) && line[d] >= '0' && line[d] <= '9'; d++ {
				id = id*10 + int(line[d]-'0')
				nd++
			}
			if nd == 0 || id >= len(seen) || seen[id] {
				okIDs = false
			} else {
				seen[id] = true
			}
		} else {
			okIDs = false
		}
		k := len(line) - 1
		for k >= 0 && line[k] != '=' {
			k--
		}
		if k >= 0 && k+1 < len(line) {
			num, ok, neg := 0, true, false
			for x := k + 1; x < len(line); x++ {
				ch := line[x]
				if ch == '-' && x == k+1 {
					neg = true
				} else if ch >= '0' && ch <= '9' {
					num = num*10 + int(ch-'0')
				} else {
					ok = false
				}
			}
			if ok {
				if neg {
					num = -num
				}
				got = append(got, num)
			}
		}
		i = j + 1
	}
	if c.enc != vEncNil && c.enc != vEncStr {
		var want []int
		for j := 0; j < c.n; j++ {
			if c.ret[j] {
				want = append(want, c.intVal(j))
			}
		}
		okL := len(got) == len(want)
		for j := 0; okL && j < len(got); j++ {
			okL = got[j] == want[j]
		}
		vAssert(okL, "C19.leaf-order")
	}
	if int32(lines) == s.NodeCnt && lines > 0 {
		vAssert(okIDs, "C19.each-node-once")
	}
	vObserve("lines", lines)
}

func (c *vT) intVal(j int) int {
	switch c.enc {
	case vEncI64:
		return int(c.i64[j])
	case vEncI32:
		return int(c.i32[j])
	case vEncI16:
		return int(c.i16[j])
	case vEncI8:
		return int(c.i8[j])
	}
	return int(c.u16[j])
}

// query: a symbolic string of length lq, optionally followed by a concrete tail of
// "qtail" bytes (queries much longer than any key: 33, 70, ... bytes beyond a leaf or a
// stored prefix), and optionally preceded by the i-th key ("qkey" = i+1, -1 = each key in turn: every string that
// extends an indexed key by lq symbolic bytes and the tail).
func (c *vT) query(lq int) string {
	q := vString("q", lq)
	if k := vParamDef("qkey", 0); k != 0 && c.n > 0 {
		idx := k - 1
		if k < 0 {
			idx = vChoice(c.n) // every key, one path each
		}
		if idx < c.n {
			q = c.keys[idx] + q
		}
	}
	if t := vParamDef("qtail", 0); t > 0 {
		tail := make([]byte, t)
		for i := range tail {
			tail[i] = byte('a' + i%3)
		}
		q += string(tail)
	}
	return q
}

func (c *vT) run(check int, lq int) {
	switch check {
	case 4:
		c.checkC04(vParam("api"), lq, vParam("le"), vParam("stop"))
	case 41:
		c.checkC04Refuse(lq)
	case 13:
		q := c.query(lq)
		c.checkC13(q)
	case 19:
		c.checkC19()
	case 5:
		q := c.query(lq)
		c.checkC05(q)
	case 1:
		c.checkC01()
	case 2:
		c.checkC02()
	case 3:
		q := c.query(lq)
		c.checkExact(q, "C03")
	case 9:
		c.checkC09()
	case 10:
		q := c.query(lq)
		c.checkC10(q)
	case 14:
		q := c.query(lq)
		c.checkC14(q)
		if vParamDef("allkeys", 0) == 1 {
			// every indexed key as the query: reaches every leaf position of the packed
			// leaf bytes (first/last word, partial last word), whatever the key lengths
			for j := 0; j < c.n; j++ {
				c.checkC14(c.keys[j])
			}
		}
	case 18:
		c.checkC18()
	}
}

// ---------- L2: fully symbolic tiny key sets ----------

func H_l2_api() {
	c := &vT{}
	c.n = vParam("n")
	L := vParam("L")
	c.optc = vParam("opt")
	c.enc = vParam("enc")
	check := vParam("check")
	lq := vParam("lq")
	lens := vLens(vParam("lens"), c.n, L)
	c.keys = vSymKeys(lens, true)
	if vParamDef("alpha", 0) == 1 {
		// restricted alphabet (nibble-diverse: 0x00 0x01 0x10 0x7f 0x80 0xff); the solver
		// still decides every assignment over it
		for _, k := range c.keys {
			for i := 0; i < len(k); i++ {
				b := k[i]
				vAssume(vOr(vOr(b == 0x00, b == 0x01), vOr(vOr(b == 0x10, b == 0x7f), vOr(b == 0x80, b == 0xff))))
			}
		}
	}
	if cv := vParam("cv"); cv >= 0 {
		vConcreteValues(c, cv)
	} else {
		c.symValues()
	}
	c.build()
	if vParamDef("loaded", 0) == 1 {
		c.st = c.reload(c.st)
	}
	c.run(check, lq)
	vReach("end")
}

// ---------- L3: concrete skeletons ----------

func H_l3_api() {
	c := &vT{}
	c.keys = vSkeleton(vParam("skel"))
	c.n = len(c.keys)
	c.optc = vParam("opt")
	c.enc = vParam("enc")
	check := vParam("check")
	lq := vParam("lq")
	if vParamDef("symv", 0) == 1 {
		c.symValues() // symbolic values (and value lengths, parameter vl) on concrete keys
	} else {
		vConcreteValues(c, vParam("runs"))
	}
	c.build()
	if vParamDef("loaded", 0) == 1 {
		c.st = c.reload(c.st)
	}
	c.run(check, lq)
	vReach("end")
}
