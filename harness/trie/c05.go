//go:build verif
// +build verif

package trie

import (
	"bytes"

	"github.com/openacid/low/pbcmpl"
)

// C05 — Marshal/Unmarshal round trip, determinism, no residue.

func init() {
	vRegister("l2_residue", H_l2_residue)
	vRegister("l2_reuse14", H_l2_reuse14)
}

// reload returns Unmarshal(Marshal(st)) in a new instance.
func (c *vT) reload(st *SlimTrie) *SlimTrie {
	b, err := st.Marshal()
	vAssert(err == nil, "marshal-ok")
	st2, _ := NewSlimTrie(c.encoder(), nil, nil)
	err = st2.Unmarshal(b)
	vAssert(err == nil, "unmarshal-ok")
	if err != nil {
		vAssume(false)
	}
	return st2
}

// sameAnswers: two tries answer every query kind identically for q.
func (c *vT) sameAnswers(a, b *SlimTrie, q string, tag string) {
	v1, f1 := a.Get(q)
	v2, f2 := b.Get(q)
	vAssert(f1 == f2 && c.sameIface(v1, v2), tag+".get")
	vAssert(a.GetID(q) == b.GetID(q), tag+".id")
	r1, g1 := a.RangeGet(q)
	r2, g2 := b.RangeGet(q)
	vAssert(g1 == g2 && c.sameIface(r1, r2), tag+".range")
	l1, e1, h1 := a.Search(q)
	l2, e2, h2 := b.Search(q)
	vAssert(c.sameIface(l1, l2) && c.sameIface(e1, e2) && c.sameIface(h1, h2), tag+".search")
}

func (c *vT) sameScan(a, b *SlimTrie, start string, tag string) {
	na := a.NewIter(start, true, true)
	nb := b.NewIter(start, true, true)
	for i := 0; i < c.n+1; i++ {
		k1, v1 := na()
		k2, v2 := nb()
		vAssert((k1 == nil) == (k2 == nil), tag+".scan.len")
		if k1 == nil || k2 == nil {
			break
		}
		vAssert(vBytesEq(k1, k2) && (v1 == nil) == (v2 == nil) && vBytesEq(v1, v2), tag+".scan.item")
	}
}

func (c *vT) checkC05(q string) {
	st2 := c.reload(c.st)
	c.sameAnswers(c.st, st2, q, "C05")
	vAssert(vDeepEqual(c.st.Stat(), st2.Stat()), "C05.same-stat")
	if vOptComplete(c.optc) {
		c.sameScan(c.st, st2, q, "C05")
	}
	// re-marshalling a loaded trie reproduces the same bytes: under A-PB, the loaded message has the
	// proto3 normal form of the message it was loaded from (natively: the real bytes)
	vAssert(vSameWire(c.st.inner, st2.inner), "C05.remarshal-same-wire")
	st3 := c.reload(st2)
	vAssert(vDeepEqual(st2.inner, st3.inner), "C05.remarshal-same-message")
	b1, _ := c.st.Marshal()
	b2, _ := st2.Marshal()
	vAssert(vNativeTrue(bytes.Equal(b1, b2)), "C05.remarshal-same-bytes(native)")
	vAssert(len(b1) == pbcmpl.Size(c.st.inner), "C05.size")
	// loaded from a larger region (the stream followed by unrelated bytes, as inside a file): the same
	// answers, and re-marshalling gives the index alone, not the region
	region := append(append([]byte{}, b1...), vBytes("trail", 9)...)
	st4, _ := NewSlimTrie(c.encoder(), nil, nil)
	err4 := st4.Unmarshal(region)
	vAssert(err4 == nil, "C05.load-from-region")
	if err4 == nil {
		c.sameAnswers(c.st, st4, q, "C05.region")
		b4, _ := st4.Marshal()
		vAssert(len(b4) == len(b1), "C05.region.remarshal-size")
		vAssert(vNativeTrue(bytes.Equal(b1, b4)), "C05.region.remarshal-same-bytes(native)")
	}
	// determinism of construction: a second build from equal input, map iteration order free
	reps := vNativeReps(16)
	if vParamDef("det", 1) == 0 {
		reps = 0 // large sweep tries: forking over the iteration orders of eleven maps multiplies paths
	}
	for rep := 0; rep < reps; rep++ {
		vMapOrderNondet(true)
		stB, err := NewSlimTrie(c.encoder(), c.keys, c.values(), vOptCase(c.optc))
		vMapOrderNondet(false)
		vAssert(err == nil, "build-ok")
		if err == nil {
			vAssert(vDeepEqual(c.st.inner, stB.inner), "C05.deterministic-message")
			b3, _ := stB.Marshal()
			vAssert(vNativeTrue(bytes.Equal(b1, b3)), "C05.deterministic-bytes(native)")
		}
	}
}

// no residue: sequences of Unmarshal/Reset on one instance.
// op codes: 0 Unmarshal(A), 1 Unmarshal(B), 2 Unmarshal(empty trie), 3 Reset.
// C14 on a reused instance: the typed getters agree with Get after the instance, having already
// answered typed and untyped queries for data A, is loaded with data B by a direct Unmarshal.
func H_l2_reuse14() {
	L := vParam("L")
	enc := vParam("enc")
	a := &vT{n: vParam("na"), optc: vParam("opta"), enc: enc}
	a.keys = vSymKeys(vLens(vParam("lensa"), a.n, L), true)
	a.symValues()
	a.build()
	b := &vT{n: vParam("nb"), optc: vParam("optb"), enc: enc}
	b.keys = vSymKeys(vLens(vParam("lensb"), b.n, L), true)
	b.symValues()
	b.build()
	sb, _ := b.st.Marshal()
	inst := a.st
	if vParamDef("viaload", 0) == 1 {
		inst = a.reload(a.st)
	}
	q := vString("q", vParam("lq"))
	a.st = inst
	a.checkC14(q) // first use, on A
	if a.n > 0 {
		a.checkC14(a.keys[0])
	}
	err := inst.Unmarshal(sb)
	vAssert(err == nil, "unmarshal-ok")
	b.st = inst
	b.checkC14(q)
	for i := 0; i < b.n; i++ {
		b.checkC14(b.keys[i])
	}
	// and the untyped answers are those of B
	ref := b.reload(b.st)
	b.sameAnswers(inst, ref, q, "C14.reuse")
	vReach("end")
}

func H_l2_residue() {
	L := vParam("L")
	a := &vT{n: vParam("na"), optc: vParam("opta"), enc: vEncU16}
	a.keys = vSymKeys(vLens(vParam("lensa"), a.n, L), true)
	a.symValues()
	a.build()
	b := &vT{n: vParam("nb"), optc: vParam("optb"), enc: vEncU16}
	b.keys = vSymKeys(vLens(vParam("lensb"), b.n, L), true)
	b.symValues()
	b.build()
	e, _ := NewSlimTrie(a.encoder(), nil, nil)
	sa, _ := a.st.Marshal()
	sb, _ := b.st.Marshal()
	se, _ := e.Marshal()
	streams := [][]byte{sa, sb, se}
	seq := vParam("seq") // base-4 digits, length nops
	nops := vParam("nops")
	inst, _ := NewSlimTrie(a.encoder(), nil, nil)
	qmid := ""
	if a.n > 0 {
		qmid = a.keys[0]
	}
	last := -1
	for i := 0; i < nops; i++ {
		op := seq % 4
		seq /= 4
		_ = inst.String() // rendering must not leave anything behind either
		inst.Marshal()    // nor serialising
		inst.Get(qmid)    // nor querying
		inst.Stat()       // nor reporting
		inst.Search(qmid)
		if op == 3 {
			inst.Reset()
		} else {
			err := inst.Unmarshal(streams[op])
			vAssert(err == nil, "unmarshal-ok")
		}
		last = op
	}
	// reference: a fresh instance that saw only the last operation
	ref, _ := NewSlimTrie(a.encoder(), nil, nil)
	if last >= 0 && last < 3 {
		err := ref.Unmarshal(streams[last])
		vAssert(err == nil, "unmarshal-ok")
	} else if last == 3 {
		ref.Reset()
	}
	q := vString("q", vParam("lq"))
	// round trip with several serialized tries alive at once: what was loaded from the stream of
	// A (B, the empty trie) answers as A (B, the empty trie) itself, not as whatever was
	// marshalled after it
	if last >= 0 && last < 3 {
		orig := []*SlimTrie{a.st, b.st, e}[last]
		a.sameAnswers(inst, orig, q, "C05.roundtrip-live")
	}
	a.sameAnswers(inst, ref, q, "C05.residue")
	vAssert(vDeepEqual(inst.inner, ref.inner), "C05.residue.message")
	vAssert(vDeepEqual(inst.Stat(), ref.Stat()), "C05.residue.stat")
	if last >= 0 && last < 3 {
		want := []int{a.n, b.n, 0}[last]
		// keys are distinct values are symbolic: KeyCnt is at most the number of keys loaded last
		vAssert(int(inst.Stat().KeyCnt) <= want, "C18.keycnt-after-reload")
	}
	vAssert(inst.String() == ref.String(), "C19.same-after-load")
	// re-marshalling the instance reproduces what it holds now, not what it held before
	again := a.reload(inst)
	a.sameAnswers(again, ref, q, "C05.residue.remarshal")
	vAssert(vDeepEqual(again.Stat(), ref.Stat()), "C05.residue.remarshal.stat")
	vReach("end")
}
